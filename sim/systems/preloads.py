"""
System `preloads` (property C15): preloaded and cached intermediate results never change inversion outputs.

Fixed world template (dataset D, linear objects L, a quiescent source inversion, ONE shared Preloads P); 2-5
inversion clients built through the aa.Inversion factory share D, P and (in half of the runs) the very same
linear-object instances, and read the inversion outputs in seeded, interleaved orders.  Oracles (DESIGN 5):

  P1  every output of an inversion that was given P  ~  the same output of the reference executor's inversion
      built with NO preloads in the mapping formalism                                         (tolerances 5.4)
  P2  clients with the same formalism, the same P and equal inputs are bit-identical to the first one
  P3  the bytes of P.curvature_matrix never change
  P4  the factory's choice (settings.use_w_tilde x preloads.use_w_tilde) changes no value, and never turns a
      solvable input into a non-InversionException failure
"""
import json

import numpy as np

from sim.core import boot, compare, findings, prng, seams
from sim.systems import purity
from sim.worlds import catalog, gen

NAME = "preloads"
PROPERTY = "C15"

OUTPUTS = [
    "data_vector", "curvature_matrix", "regularization_matrix", "curvature_reg_matrix", "reconstruction", "mapped_reconstructed_data",
    "mapped_reconstructed_data_dict", "regularization_term", "log_det_curvature_reg_matrix_term", "log_det_regularization_matrix_term",
]
FIT_OUTPUTS = ["log_evidence", "figure_of_merit", "chi_squared"]
SOLUTION_DEPENDENT = {"reconstruction", "mapped_reconstructed_data", "mapped_reconstructed_data_dict", "regularization_term", "log_evidence", "figure_of_merit", "chi_squared"}
LOGDETS = {"log_det_curvature_reg_matrix_term", "log_det_regularization_matrix_term"}
OK_EXC = ("InversionException",)


def leaves(tree, out=None):
    """numeric leaves of a canonical tree, in order"""
    if out is None:
        out = []
    tag = tree[0]
    if tag in ("nd", "f", "i", "b"):
        out.append(np.asarray(compare.to_array(tree), dtype=np.float64) if tag != "nd" or tree[1] != "c" else np.asarray(compare.to_array(tree)))
    elif tag in ("aa", "mask"):
        leaves(tree[2], out)
    elif tag in ("t", "l"):
        for v in tree[1]:
            leaves(v, out)
    elif tag == "d":
        for _, v in tree[1]:
            leaves(v, out)
    return out


class PreloadsSim(purity.PuritySim):
    def __init__(self, run_seed, case, cfg, known):
        self._meta = None
        super().__init__(run_seed, case, cfg, known)
        if case is not None:
            self.meta = case["meta"]
        else:
            self.meta = self._meta
        self.ref_of = dict(self.meta.get("ref_of", {}))
        self.first = {}  # P2: (formalism, quantity) -> (digest, client inversion)
        self.slot_fp = None
        self.cond_memo = {}
        self.harvested = False

    # knobs / world ------------------------------------------------------------------------------

    def gen_knobs(self):
        r = self.streams["world"]
        fault = self.mode == "fault"
        return {
            "n_ops": r.randrange(25, 60),
            "n_clients": r.randrange(2, 6),
            "share_objects": r.random() < 0.5,
            "harvest": r.random() < 0.35,
            "p_evict": r.choice([0.03, 0.08, 0.15]) if fault else 0.0,
            "p_rng": r.choice([0.02, 0.05]) if fault else 0.0,
            "p_solver": r.choice([0.0, 0.04, 0.08]) if fault else 0.0,
            "profile_on": fault and r.random() < 0.4,
            "profile_repeats": r.choice([1, 2, 2, 3]),  # general.profiling.repeats: every profiled function body runs that many times
            "conf": {k: r.choice(v) for k, v in purity.CONF_KNOBS.items() if r.random() < 0.5},
            "templates": ["preloads"],
        }

    def _gen_world(self):
        nodes, meta = gen.gen_preloads_world(self.streams["world"], self.streams["values"], self.knobs)
        self._meta = meta
        return nodes

    def result(self, status):
        res = super().result(status)
        res["case"]["property"] = PROPERTY
        res["case"]["system"] = NAME
        meta = dict(self.meta)
        meta["ref_of"] = self.ref_of
        res["case"]["meta"] = meta
        m = self.meta
        res["stats"]["core_built"] = all(x in self.world.env for x in [m["D"], m["P"]]) and any(i in self.world.env for i in self.ref_of)
        return res

    def report(self, kind, target_type, quantity, condition, expected, got):
        v = {"property": PROPERTY, "kind": kind, "target_type": target_type, "quantity": quantity, "condition": condition,
             "expected": expected, "got": got, "step": len(self.schedule) - 1}
        hit = findings.match(v, self.known, PROPERTY)
        if hit is not None:
            v["finding_id"] = hit.get("id")
            self.known_hits.append(v)
            return False
        self.violation = v
        raise purity.StopRun()

    # invariants after every event ---------------------------------------------------------------

    def slots_fingerprint(self):
        P = self.world.env.get(self.meta["P"])
        if P is None:
            return {}
        out = {}
        for s in gen.PUBLIC_SLOTS:
            v = getattr(P, s, None)
            if v is None:
                out[s] = None
            elif s == "w_tilde":
                out[s] = (id(v), compare.digest(compare.canon(v)))
            else:
                out[s] = (id(v), compare.digest(compare.canon(v)))
        return out

    def after_event(self, what):
        # P3 first: the bytes of the preloaded curvature matrix (same object => same bytes)
        now = self.slots_fingerprint()
        if self.slot_fp is not None:
            for s, fp in now.items():
                old = self.slot_fp.get(s)
                if fp is not None and old is not None and fp[0] == old[0] and fp[1] != old[1]:
                    self.stats["checked"] += 1
                    if s == "curvature_matrix":
                        self.slot_fp = now
                        self.report("preload_mutated", "Preloads", s, {"during": what.split(" ")[0]}, "bytes of the preloaded curvature matrix unchanged", "changed in place")
                    else:
                        self.probe("other_public_slot_bytes_changed:" + s)
        self.slot_fp = now
        if now.get("curvature_matrix") is not None:
            self.stats["checked"] += 1
        # C11's invariants are not this system's business, except the ones that keep P1/P2 meaningful
        for node_id, label, fp0, fp1, rec in self.world.check_owned():
            rec[3] = fp1
            self.probe("c11_input_mutated_seen")
        g = seams.globals_fingerprint()
        if g != self.globals0:
            self.globals0 = g
            self.probe("c11_global_state_mutated_seen")

    # nodes --------------------------------------------------------------------------------------

    def add_node(self, spec, initial=False):
        nid = spec["id"]
        self.ref.add_spec(spec)
        self.world.add(spec)
        if nid in self.world.failed:
            got = self.world.failed[nid]
            self.log.append(ev="node", id=nid, kind=spec["kind"], outcome="raises " + got)
            refid = self.ref_of.get(nid)
            if refid is not None and got != "DependencyFailed":
                # P4: the factory must not turn an input the mapping formalism handles into a failure.  An InversionException is
                # accepted at READ time (a solver may legitimately give up on one path and not the other), but at CONSTRUCTION time
                # the only library check is the w-tilde / noise-map consistency check, and every w-tilde table in this world was
                # computed from an identical dataset - rejecting it changes the outcome.
                exp, _ = self.ref.read(refid, None)
                self.stats["checked"] += 1
                if exp[0] == "built":
                    self.report("formalism_choice_changes_outcome", "Inversion", "constructor", self.client_cond(nid),
                                "builds (the mapping formalism without preloads does)", "raises " + got)
            else:
                self.stats["build_skips"] += 1
            return False
        self.log.append(ev="node", id=nid, kind=spec["kind"], type=type(self.world.env[nid]).__name__, outcome="built")
        return True

    def client_cond(self, nid):
        spec = self.world.specs.get(nid, {})
        m = self.meta
        obj = self.world.env.get(nid)
        return {
            "formalism": type(obj).__name__ if obj is not None else "?",
            "settings_use_w_tilde": spec.get("settings", {}).get("$node") == m["st_w"] if spec.get("settings") else None,
            "preloads_use_w_tilde": m.get("preloads_use_w_tilde"),
            "slots": sorted(s for s, fp in (self.slot_fp or {}).items() if fp is not None),
            "kernel": m.get("kernel"),
            "signed_psf": m.get("signed_psf"),
            "shared_objects": self.knobs.get("share_objects"),
            "harvested": self.harvested,
        }

    # reads --------------------------------------------------------------------------------------

    def tolerance(self, refid, name):
        if name in ("data_vector", "curvature_matrix", "regularization_matrix", "curvature_reg_matrix"):
            return ("rel", 1e-10)
        if name in LOGDETS:
            return ("logdet", 1e-9)
        return ("cond", None)

    def cond_of(self, refid, name="curvature_reg_matrix"):
        if (refid, name) in self.cond_memo:
            return self.cond_memo[(refid, name)]
        tree, _ = self.ref.read(refid, {"t": "prop", "name": name})
        try:
            c = float(np.linalg.cond(compare.to_array(tree)))
        except Exception:  # noqa: BLE001
            c = float("inf")
        self.cond_memo[(refid, name)] = c
        return c

    def do_read(self, op):
        target = op["target"]
        q = op["q"]
        if target not in self.world.env:
            return False
        for a in catalog.q_nodes(q):
            if a not in self.world.env:
                return False
        obj = self.world.env[target]
        tn = type(obj).__name__
        label = catalog.q_label(q)
        if q["t"] == "call" and tn == "Preloads":
            return self.do_harvest(op)
        refid = self.ref_of.get(target)
        shim = None
        if self.armed_solver is not None:
            shim = seams.SolverShim(self.armed_solver)
            self.armed_solver = None
        try:
            if shim:
                with shim:
                    tree = compare.canon(catalog.perform(self.world.env, target, q, world=self.world, node_id=target))
            else:
                tree = compare.canon(catalog.perform(self.world.env, target, q, world=self.world, node_id=target))
        except (Exception, SystemExit) as e:  # noqa: BLE001
            tree = ("exc", type(e).__name__)
        pop = catalog.populated(obj)
        self.stats["cache_states"].add(f"{tn}:{','.join(pop)}")
        prev = self.last_read.get(target)
        if prev is not None:
            self.stats["order_pairs"].add(f"{tn}.{prev}->{label}")
        self.last_read[target] = label
        key = (target, label)
        if shim is not None and shim.fired:
            self.stats["faults_fired"]["solver_fail"] = self.stats["faults_fired"].get("solver_fail", 0) + 1
            if tree[0] == "exc":
                self.recovering.add(key)
            else:
                # the fallback value may now sit in the cache of the target or of anything it was built from
                self.tainted.update(self.world.closure(self.world.specs, target))
                self.probe("injected_solver_error_absorbed_by_fallback")
            self.log.append(ev="read", target=target, type=tn, q=label, outcome="fault:" + compare.digest(tree), fault="solver_fail")
            self.uncheck("read_during_solver_fault")
            self.after_event(f"read:{tn}.{label}")
            return True
        self.log.append(ev="read", target=target, type=tn, q=label, outcome=compare.digest(tree))
        if getattr(self, "internal_slots", False) and (tn == "InversionImagingMapping" or self.fit_inv.get(target) and type(self.world.env.get(self.fit_inv.get(target))).__name__ == "InversionImagingMapping"):
            # the internal mapper slots were produced by w-tilde fits; they are not among the public slots the statement quantifies over
            self.uncheck("internal_mapper_slots_are_formalism_specific")
            self.after_event(f"read:{tn}.{label}")
            return True
        if self.is_tainted(target):
            self.uncheck("after_absorbed_solver_fault")
            self.after_event(f"read:{tn}.{label}")
            return True
        if refid is None:
            self.after_event(f"read:{tn}.{label}")
            return True
        cond = self.client_cond(target if target in self.world.specs and self.world.specs[target]["kind"] == "inversion" else self.fit_inv.get(target, target))
        mkey = (refid, json.dumps(q, sort_keys=True))
        if mkey in self.memo:
            expected = self.memo[mkey]
        else:
            expected, _ = self.ref.read(refid, q)
            self.memo[mkey] = expected
        if expected[0] == "build_failed":
            self.uncheck("reference_build_failed")
            self.after_event(f"read:{tn}.{label}")
            return True
        # ---- exceptions
        if tree[0] == "exc" or expected[0] == "exc":
            self.stats["checked"] += 1
            if tree[0] == "exc" and expected[0] == "exc":
                pass
            elif tree[0] == "exc" and tree[1] not in OK_EXC:
                self.report("formalism_choice_changes_outcome", tn, label, cond, compare.describe(expected)[:200], "raises " + tree[1])
            else:
                self.uncheck("inversion_exception_on_one_side")
            self.after_event(f"read:{tn}.{label}")
            return True
        # ---- P1 / P4: agreement with the no-preload mapping reference
        self.stats["checked"] += 1
        self.stats["nonexc_checked"] += 1
        kind_tol, tol = self.tolerance(refid, label)
        skip = False
        c = 1.0
        if kind_tol == "cond":
            c = self.cond_of(refid)
            if not np.isfinite(c) or c > 1e10:
                skip = True
                self.probe("ill_conditioned_skipped")
            else:
                # forward error of a solve is bounded by ~ n * cond * eps; quadratic forms of the solution double it.  The constant
                # 1e3 of the first version was exceeded once in ~2000 runs (relative difference 1.24e-6 at cond 4.7e6), hence 1e4.
                tol = max(1e-8, 1e4 * c * 2.2e-16)
        elif kind_tol == "logdet":
            # a log-determinant may legitimately come from LU or from the Cholesky fallback: both are accurate to ~ n*cond*eps
            c = self.cond_of(refid, "regularization_matrix_reduced" if label == "log_det_regularization_matrix_term" else "curvature_reg_matrix_reduced")
            if not np.isfinite(c) or c > 1e10:
                skip = True
                self.probe("ill_conditioned_skipped")
        if not skip:
            a, b = leaves(tree), leaves(expected)
            bad = None
            if len(a) != len(b):
                bad = f"structure differs ({len(a)} vs {len(b)} numeric leaves)"
            else:
                # one common scale for all leaves of an output (a dict of per-object images): the error of a solve is relative to the
                # size of the whole solution, not of its smallest component.  Absolute floors: inputs are of order one, so values
                # below 1e-6 (exact-type outputs) / 1e-3 (solution-dependent outputs) are rounding noise.
                # NaN-aware: a NaN (e.g. an adaptive regularization fed negative adapt data) must sit at the same places on both
                # sides; magnitudes are compared over the finite entries
                def _finite_max(y):
                    f = np.abs(y[np.isfinite(y)])
                    return float(f.max()) if f.size else 0.0

                all_scale = max([_finite_max(y) for y in b if y.size] + [0.0])
                floor = 1e-3 if kind_tol == "cond" else 1e-6
                scale = max(all_scale, floor)
                for x, y in zip(a, b):
                    if x.shape != y.shape:
                        bad = f"shape {x.shape} vs {y.shape}"
                        break
                    if x.size == 0:
                        continue
                    if not np.array_equal(np.isfinite(x), np.isfinite(y)):
                        bad = "non-finite entries at different places"
                        break
                    fin = np.isfinite(y)
                    if x.ndim == 0:
                        err = float(abs(x - y)) if bool(fin) else 0.0
                    else:
                        err = float(np.max(np.abs(x[fin] - y[fin]))) if fin.any() else 0.0
                    if kind_tol == "logdet":
                        n = max(1, int(self.world.env[target].total_params) if hasattr(self.world.env[target], "total_params") else 1)
                        lim = max(1e-9 * n * max(1.0, all_scale), 1e2 * n * c * 2.2e-16)
                    else:
                        lim = tol * scale
                    if not (err <= lim):
                        bad = f"max abs difference {err:.3e} > {lim:.3e} (scale {scale:.3e})"
                        break
            if bad:
                vk = "preload_changes_output" if cond["slots"] else "formalism_changes_output"
                if kind_tol == "cond" and self.reference_solution_not_stationary(refid):
                    # the library's positive-only solver handed back a point that is not a stationary point of its own problem
                    # (known finding F15-3): its answer then jumps by per cents for a last-bit change of the data vector, which is
                    # all the two formalisms differ by.  Identified by that predicate, so anything else is still reported.
                    cond = dict(cond, reference_solution_not_stationary=True)
                    self.probe("solver_answer_not_stationary")
                self.report(vk, tn, label, cond, compare.describe(expected)[:240], compare.describe(tree)[:240] + " -- " + bad)
        # ---- P2: bit-identical among clients of the same formalism sharing P (only while P's slots are fixed)
        if not self.harvested and not self.knobs.get("p_evict") and target in self.client_invs:
            ds_of = self.world.specs.get(target, {}).get("dataset", {}).get("$node")
            # bit-identity is promised among inversions on the same inputs: the other-image interface and a re-derived dataset (whose
            # kernel was normalised once more, last-bit different) are inputs of their own
            k2 = (tn, label, ds_of if (ds_of == self.meta.get("DX") or str(ds_of).startswith("dsd")) else None)
            dg = compare.digest(tree)
            if k2 in self.first:
                self.stats["checked"] += 1
                self.probe("p2_compared")
                if self.first[k2][0] != dg:
                    self.report("reuse_not_identical", tn, label, dict(cond, first_client=self.first[k2][1], this_client=target),
                                "bit-identical to the first inversion that used the same Preloads", "differs")
            else:
                self.first[k2] = (dg, target)
        if key in self.recovering:
            self.recovering.discard(key)
            self.probe("solver_failure_then_recovery")
        self.after_event(f"read:{tn}.{label}")
        return True

    def reference_solution_not_stationary(self, refid):
        """
        True when the REFERENCE inversion's own reconstruction x (no preloads, mapping formalism) is not a stationary point of the
        problem it was asked to solve: on the entries with x > 0 the gradient (F+H) x - D of the quadratic must vanish for the
        unconstrained, the positive-only and the forced-zero solutions alike.  Evaluated only after a mismatch.
        """
        inv_id = refid
        for fid, rf in self.ref_of.items():
            if rf == refid and fid in self.fit_inv:  # a fit: the question is about its inversion
                inv_id = self.ref_of.get(self.fit_inv[fid], refid)
                break
        try:
            trees = [self.ref.read(inv_id, {"t": "prop", "name": n})[0] for n in ("reconstruction", "curvature_reg_matrix", "data_vector")]
            if any(t[0] in ("exc", "build_failed") for t in trees):
                return False
            x, A, D = (np.asarray(compare.to_array(t), dtype=float) for t in trees)
            if x.ndim != 1 or A.shape != (x.size, x.size) or D.shape != x.shape or not (np.isfinite(x).all() and np.isfinite(A).all() and np.isfinite(D).all()):
                return False
            pos = x > 0
            if not pos.any():
                return False
            g = A @ x - D
            return bool(np.max(np.abs(g[pos])) > 1e-6 * max(1.0, float(np.max(np.abs(D)))))
        except Exception:  # noqa: BLE001
            return False

    def do_aux(self, op):
        target = op["target"]
        if target not in self.world.env:
            return False
        try:
            out = compare.digest(compare.canon(catalog.perform(self.world.env, target, op["q"], world=self.world, node_id=target)))
        except (Exception, SystemExit) as e:  # noqa: BLE001
            out = "raises " + type(e).__name__
        self.probe("auxiliary_read")
        self.log.append(ev="aux", target=target, q=op["q"]["name"], outcome=out)
        self.after_event(f"aux:{op['q']['name']}")
        return True

    def do_harvest(self, op):
        target = op["target"]
        q = op["q"]
        try:
            catalog.perform(self.world.env, target, q, world=self.world, node_id=target)
            out = "ok"
        except (Exception, SystemExit) as e:  # noqa: BLE001
            out = "raises " + type(e).__name__
        self.harvested = True
        P = self.world.env.get(self.meta["P"])
        if P is not None and (getattr(P, "curvature_matrix_mapper_diag", None) is not None or getattr(P, "data_vector_mapper", None) is not None):
            self.internal_slots = True
            self.probe("internal_mapper_slots_harvested")
        self.slot_fp = None
        self.probe("harvest:" + q["name"])
        self.log.append(ev="harvest", q=q["name"], outcome=out, slots=sorted(s for s, fp in self.slots_fingerprint().items() if fp is not None))
        self.after_event("harvest")
        return True

    # the run ------------------------------------------------------------------------------------

    def run(self):
        self.client_invs = set()
        self.fit_inv = {}
        return super().run()

    def generate_and_run(self):
        rs, rf = self.streams["schedule"], self.streams["faults"]
        k = self.knobs
        m = self.meta
        env = self.world.env
        if m["D"] not in env or m["P"] not in env:
            return
        clients = []
        for c in range(k["n_clients"]):
            clients.append({"name": f"i{c}", "inv": None, "fit": None, "queue": [], "refitted": 0})
        harvest_at = rs.randrange(3, 15) if k.get("harvest") else None
        idle = 0
        # once per run (one run in three) the dataset is re-derived in mid-history - apply_over_sampling with the scheme it already has -
        # and inversions built afterwards may use the derived dataset: whatever the parent had computed by then must not leak into it
        # (apply_over_sampling re-normalises the kernel, so for a kernel used as given the derived dataset is a DIFFERENT dataset: the
        # preloads computed for the parent do not apply to it and its inversions are built without them - the factory's choice between
        # formalisms must still not change values)
        rederive_at = rs.randrange(4, 25) if rs.random() < 0.33 else None
        cur_ds = m["D"]
        while len(self.schedule) < k["n_ops"] and idle < 200:
            u = rf.random()
            if u < k["p_evict"]:
                cands = [(n, name) for n in self.world.order if n in env and n != m["src"] for name in catalog.populated(env[n])]
                if cands:
                    n, name = rf.choice(cands)
                    self.apply({"op": "env", "kind": "evict", "target": n, "name": name})
                    continue
            elif u < k["p_evict"] + k["p_rng"]:
                self.apply({"op": "env", "kind": "rng_perturb", "k": rf.randrange(0, 2**31), "draws": rf.randrange(0, 50)})
                continue
            elif u < k["p_evict"] + k["p_rng"] + k["p_solver"]:
                invs = [c["inv"] for c in clients if c["inv"] in env]
                if invs:
                    t = rf.choice(invs)
                    name = rf.choice(["reconstruction", "log_det_curvature_reg_matrix_term", "log_det_regularization_matrix_term"])
                    self.apply({"op": "env", "kind": "solver_fail", "nth": rf.randrange(1, 3)})
                    self.apply({"op": "read", "client": "fault", "target": t, "q": {"t": "prop", "name": name}})
                    self.apply({"op": "read", "client": "fault", "target": t, "q": {"t": "prop", "name": name}})
                    continue
            if harvest_at is not None and len(self.schedule) >= harvest_at:
                harvest_at = None
                self.gen_harvest(rs)
                continue
            if rederive_at is not None and len(self.schedule) >= rederive_at:
                rederive_at = None
                did = self.new_node_id("dsd")
                over = {"$over_dataset": {"pixelization": int(m.get("sub", 1))}}
                dspec = {"id": did, "kind": "derive", "src": {"$node": m["D"]}, "q": {"t": "call", "name": "apply_over_sampling", "kw": {"over_sampling": over}}}
                self.apply({"op": "node", "client": "deriver", "node": dspec})
                if did in env:
                    cur_ds = did
                    self.probe("dataset_rederived_mid_history")
                continue
            client = rs.choice(clients)
            if client["queue"]:
                self.apply(client["queue"].pop(0))
                continue
            if client["inv"] is None or (client["refitted"] < 2 and rs.random() < 0.08):
                # build (or re-build: the "successive inversions" of the statement) an inversion that uses P
                use_w = rs.random() < 0.6 or getattr(self, "internal_slots", False)
                objs = m["L"] if (k["share_objects"] or rs.random() < 0.5) else m["L2"]
                nid = self.new_node_id("inv")
                ds_id = m["DI"] if (m.get("DI") and m["DI"] in env and rs.random() < 0.5) else m["D"]
                if ds_id != m["D"]:
                    self.probe("client_uses_dataset_interface")
                ref_ds = m["D"]
                if cur_ds != m["D"] and cur_ds in env and ds_id == m["D"] and rs.random() < 0.6:
                    ds_id = ref_ds = cur_ds
                if m.get("DX") and m["DX"] in env and not self.harvested and rs.random() < 0.4:
                    # same noise / PSF / mask / w-tilde objects, another image: its reference is the no-preload mapping inversion of THAT image
                    ds_id = ref_ds = m["DX"]
                    self.probe("client_uses_other_image_same_tables")
                spec = {"id": nid, "kind": "inversion", "dataset": {"$node": ds_id}, "objs": [{"$node": o} for o in objs],
                        "settings": {"$node": m["st_w"] if use_w else m["st_m"]}, "preloads": {"$node": m["P"]}, "profile": bool(k.get("profile_on") and rs.random() < 0.5)}
                if str(ds_id).startswith("dsd") and not m.get("psf_normalised"):
                    del spec["preloads"]
                    self.probe("derived_dataset_with_other_kernel_uses_no_preloads")
                refid = "ref_" + nid
                rspec = {"id": refid, "kind": "inversion", "dataset": {"$node": ref_ds}, "objs": [{"$node": o} for o in objs], "settings": {"$node": m["st_m"]}}
                self.ref_of[nid] = refid
                self.apply({"op": "node", "client": client["name"], "node": spec, "ref_node": rspec})
                if client["inv"] is not None:
                    client["refitted"] += 1
                client["inv"] = nid
                order = list(OUTPUTS)
                rs.shuffle(order)
                order = order + [rs.choice(OUTPUTS) for _ in range(rs.randrange(0, 4))]
                client["queue"] = [{"op": "read", "client": client["name"], "target": nid, "q": {"t": "prop", "name": n}} for n in order[: rs.randrange(4, len(order) + 1)]]
                if ref_ds == m["D"] and rs.random() < 0.4:
                    fid = self.new_node_id("fit")
                    fspec = {"id": fid, "kind": "fit_imaging", "dataset": {"$node": m["D"]}, "inversion": {"$node": nid}}
                    rfid = "ref_" + fid
                    rfspec = {"id": rfid, "kind": "fit_imaging", "dataset": {"$node": m["D"]}, "inversion": {"$node": refid}}
                    self.ref_of[fid] = rfid
                    client["queue"].insert(rs.randrange(0, len(client["queue"]) + 1), {"op": "node", "client": client["name"], "node": fspec, "ref_node": rfspec})
                    for n in FIT_OUTPUTS:
                        if rs.random() < 0.7:
                            client["queue"].append({"op": "read", "client": client["name"], "target": fid, "q": {"t": "prop", "name": n}})
                continue
            # an auxiliary read: any other public cached quantity of the client's inversion (data_subtracted_dict, errors, the noise
            # map of the reconstruction ... what plotters and summaries ask for).  It is carried out and logged, not compared - it is
            # history for the successive inversions that share the dataset, the linear objects and the Preloads
            if client["inv"] in env and rs.random() < 0.15:
                aux = [n for n in catalog.cached_names(type(env[client["inv"]])) if not n.startswith("_") and n not in OUTPUTS]
                if aux:
                    self.apply({"op": "aux", "client": client["name"], "target": client["inv"], "q": {"t": "prop", "name": rs.choice(aux)}})
                    continue
            # extra repeated read
            if client["inv"] in env:
                self.apply({"op": "read", "client": client["name"], "target": client["inv"], "q": {"t": "prop", "name": rs.choice(OUTPUTS)}})
            else:
                idle += 1
                client["inv"] = None

    def gen_harvest(self, rs):
        """Preloads.set_*(fit_0, fit_1) with two fits of identical inputs, then the clients keep using P."""
        m = self.meta
        ids = []
        second = m["L3"] if (m.get("L3") and rs.random() < 0.6) else m["L2"]
        if second is not m["L2"]:
            self.probe("harvest_fits_differ_in_function_lists")
        # fits that differ in their function lists make set_curvature_matrix fill the INTERNAL mapper slots, which are specific to
        # the formalism that produced them (and whose mapping-formalism producer raises IndexError for an unregularized function
        # list on the pinned tree - outside the three properties, noted in DESIGN 11.5): those fits use the w-tilde formalism
        h_settings = m["st_w"] if (second is not m["L2"] or rs.random() < 0.5) else m["st_m"]
        for tag, objs, ds in (("h0", m["L2"], m["D2"]), ("h1", second, m["D2"])):
            iid = self.new_node_id("hinv")
            self.apply({"op": "node", "client": "harvester", "node": {"id": iid, "kind": "inversion", "dataset": {"$node": ds}, "objs": [{"$node": o} for o in objs], "settings": {"$node": h_settings}}})
            fid = self.new_node_id("hfit")
            self.apply({"op": "node", "client": "harvester", "node": {"id": fid, "kind": "fit_imaging", "dataset": {"$node": ds}, "inversion": {"$node": iid}}})
            ids.append(fid)
        if not all(i in self.world.env for i in ids):
            return
        names = ["set_w_tilde_imaging", "set_curvature_matrix", "set_regularization_matrix_and_term", "set_operated_mapping_matrix_with_preloads",
                 "set_linear_func_inversion_dicts", "set_mapper_list", "set_relocated_grid"]
        rs.shuffle(names)
        for n in names[: rs.randrange(1, 8)]:
            self.apply({"op": "read", "client": "harvester", "target": m["P"], "q": {"t": "call", "name": n, "kw": {"fit_0": {"$node": ids[0]}, "fit_1": {"$node": ids[1]}}}})

    def do_node(self, op):
        spec = op["node"]
        if spec["id"] in self.world.specs:
            return False
        for d in self.world.deps(spec):
            if d not in self.world.env:
                return False
        if op.get("ref_node"):
            self.ref.add_spec(op["ref_node"])
            self.ref_of[spec["id"]] = op["ref_node"]["id"]
        ok = self.add_node(spec)
        if ok and spec["kind"] == "inversion" and spec.get("preloads"):
            self.client_invs.add(spec["id"])
        if spec["kind"] == "fit_imaging":
            self.fit_inv[spec["id"]] = spec["inversion"]["$node"]
        self.after_event(f"node:{spec['kind']}")
        return True


def execute(run_seed, case, cfg, known):
    return PreloadsSim(run_seed, case, cfg, known).run()


def simplifications(case):
    import copy

    if case["knobs"].get("conf"):
        c = copy.deepcopy(case)
        c["knobs"]["conf"] = {}
        yield c
    if case["knobs"].get("profile_on"):
        c = copy.deepcopy(case)
        c["knobs"]["profile_on"] = False
        yield c
    # fewer preload slots
    for n in case["recipe"]:
        if n["kind"] == "preloads":
            for k in list(n.get("kw", {})):
                c = copy.deepcopy(case)
                for n2 in c["recipe"]:
                    if n2["id"] == n["id"]:
                        n2["kw"].pop(k)
                yield c


RULE = (
    "one case = one seeded run of the fixed template: an imaging dataset D = Imaging(...).apply_mask(mask) (mask footprint inside the frame, positive noise, data positive/zero-mean/negative, "
    "odd PSF 1..5 per axis square or non-square, non-negative or signed), 1-3 linear objects (rectangular / Delaunay mappers with any regularization scheme or none, 1-2-column function lists) in any "
    "order, a quiescent source inversion (either formalism) whose outputs fill a random subset of the 5 public Preloads slots (+ the use_w_tilde flag), and 2-5 interleaved clients that build "
    "aa.Inversion(D, L, settings(use_w_tilde=True|False), preloads=P) - sometimes twice - and read the 10 inversion outputs (+ 3 fit outputs) in seeded permutations; environment events: cache eviction, "
    "RNG perturbation, solver failure, profiling path, Preloads.set_* harvesting mid-run. Non-trivial: (>= 2 clients interleaved or >= 1 fault fired) AND >= 5 outputs compared numerically against the "
    "no-preload mapping reference. Distinct = distinct SHA-1 of (recipe node kinds, operation/target-type/quantity sequence)."
)
STATE_MEASURE = "distinct (inversion type, frozenset of populated cached-property names) pairs observed at a read"
EXPECTED_PROBES = ["p2_compared", "solver_failure_then_recovery", "harvest:set_curvature_matrix", "harvest:set_w_tilde_imaging", "harvest:set_linear_func_inversion_dicts",
                   "client_uses_dataset_interface", "client_uses_other_image_same_tables", "dataset_rederived_mid_history", "auxiliary_read"]
STUBS = purity.STUBS
ASSUMPTIONS = [
    "P1/P4 compare against the mapping formalism WITHOUT preloads, built from raw bytes in the isolated reference executor; tolerances relative to the reference max-abs: 1e-10 for data vector / curvature / regularization matrices, "
    "1e-9*n absolute for log-determinants, max(1e-8, 1e4*cond(F+H)*2.2e-16) for reconstruction-dependent outputs, which are skipped (probe ill_conditioned_skipped) when cond(F+H) > 1e10",
    "P2 (bit-identity among clients sharing P) is checked only while P's slots are fixed (no mid-run harvest) and no cache eviction is enabled",
    "the source inversion that produced the slot values is kept quiescent after harvesting (Preloads.set_curvature_matrix stores by reference; the statement protects the preload from the inversions that USE it)",
    "an InversionException on either side (singular / degenerate system) is accepted on both; any other exception raised only on the preloaded / factory-chosen side is a violation",
    "the read during which an injected solver failure fires is not compared; its re-read is",
    "sampling, not enumeration: a clean batch is evidence, not proof",
]
TIERS = {
    "quick": {"batches": [("nofault", 1800), ("fault", 1000)], "wall_cap": 100.0},
    "thorough": {"batches": [("nofault", 40000), ("fault", 20000)], "wall_cap": 1200.0, "selftest_seeds": 30},
}
