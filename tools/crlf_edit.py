#!/venv/bin/python
"""Byte-preserving search/replace for the CRLF sources of /repo:  crlf_edit.py FILE <<< JSON [[old,new],...]
old/new are given with \n line ends and are converted to the file's own line terminator."""
import json, sys
path = sys.argv[1]
pairs = json.load(sys.stdin)
data = open(path, "rb").read()
crlf = b"\r\n" in data
for old, new in pairs:
    o = old.encode(); n = new.encode()
    if crlf:
        o = o.replace(b"\r\n", b"\n").replace(b"\n", b"\r\n"); n = n.replace(b"\r\n", b"\n").replace(b"\n", b"\r\n")
    if data.count(o) != 1:
        sys.exit(f"{path}: expected exactly one occurrence of {old!r}, found {data.count(o)}")
    data = data.replace(o, n)
open(path, "wb").write(data)
