#!/venv/bin/python
"""verify_seeded.py <worktree> <name> <property>: independently confirm a seeded change produced by a sub-agent and file it
under /verif/seeded/<name>/ (patch.diff, demo.py, notes.md, meta.json).  Uses a scratch rsync copy of /repo, removed afterwards."""
import json, os, shutil, subprocess, sys, tempfile
wt, name, prop = sys.argv[1], sys.argv[2], sys.argv[3]
benign = len(sys.argv) > 4 and sys.argv[4] == "--benign"
src = os.path.join(wt, "_seeded")
dst = os.path.join("/verif/seeded", name)
os.makedirs(dst, exist_ok=True)
for f in ("patch.diff", "demo.py", "notes.md"):
    shutil.copy(os.path.join(src, f), os.path.join(dst, f))
copy = tempfile.mkdtemp(prefix="paa-seed-", dir="/dev/shm")
try:
    subprocess.run(["rsync", "-a", "--exclude", ".git", "--exclude", "__pycache__", "/repo/", copy + "/"], check=True)
    os.makedirs(os.path.join(copy, "_seeded"), exist_ok=True)
    shutil.copy(os.path.join(dst, "demo.py"), os.path.join(copy, "_seeded", "demo.py"))
    env = dict(os.environ, PYTHONPATH=copy, PYTHONDONTWRITEBYTECODE="1")
    def demo():
        p = subprocess.run(["/venv/bin/python", "_seeded/demo.py"], cwd=copy, env=env, capture_output=True, text=True, timeout=900)
        return p.returncode, (p.stdout + p.stderr)[-400:]
    rc0, out0 = demo()
    subprocess.run(["git", "init", "-q"], cwd=copy, capture_output=True)
    ap = subprocess.run(["git", "apply", "--whitespace=nowarn", os.path.join(dst, "patch.diff")], cwd=copy, capture_output=True, text=True)
    applied = ap.returncode == 0
    rc1, out1 = demo() if applied else (None, ap.stderr[-300:])
    bt = subprocess.run(["/verif/tools/baseline_check.py", copy], capture_output=True, text=True)
    tests_line = [l for l in bt.stdout.splitlines() if l.startswith("stable_pass")]
    meta = {
        "property": prop,
        "source": f"independent sub-agent working in its own scratch worktree ({os.path.basename(wt)}), given only the text of the property",
        "what": open(os.path.join(dst, "notes.md")).read()[:1500],
        "confirmed": {
            "patch_applies_to_repo_head": applied,
            "demo_exit_without_change": rc0,
            "demo_exit_with_change": rc1,
            "demo_tail_with_change": out1,
            "repo_suite_with_change": tests_line[0] if tests_line else bt.stdout[-200:],
            "repo_head": subprocess.run(["git", "-C", "/repo", "rev-parse", "--short", "HEAD"], capture_output=True, text=True).stdout.strip(),
        },
        "expect": "survives" if benign else "caught",
    }
    if benign:
        meta["kind"] = "behaviour-preserving refactor: every check must stay silent on it"
    ok = applied and rc0 == 0 and ((rc1 == 0) if benign else (rc1 not in (0, None))) and bt.returncode == 0
    meta["confirmed"]["all_confirmed"] = ok
    json.dump(meta, open(os.path.join(dst, "meta.json"), "w"), indent=1)
    print(name, "confirmed" if ok else "NOT CONFIRMED", json.dumps(meta["confirmed"])[:600])
finally:
    shutil.rmtree(copy, ignore_errors=True)
