"""
In-process seams (DESIGN section 1): module-level default instances (S5), configuration (S7), numerical
solvers (S9), the profiling clock (S10).  Everything here is reached from outside /repo by patching module
attributes for the duration of one operation; nothing is left patched between operations.
"""
import hashlib
import inspect
import json
import sys
import types

import numpy as np

from . import compare


# ---------------------------------------------------------------------------------------------------
# S5: module-level default instances used as default arguments
# ---------------------------------------------------------------------------------------------------

_defaults_cache = None


def default_instances():
    """[(label, object)] for every library object used as a default argument anywhere in the package (unique by id)."""
    global _defaults_cache
    if _defaults_cache is not None:
        return _defaults_cache
    found = {}
    for mname in sorted(sys.modules):
        if not (mname == "autoarray" or mname.startswith("autoarray.")):
            continue
        mod = sys.modules[mname]
        if mod is None:
            continue
        funcs = []
        for name, val in sorted(vars(mod).items(), key=lambda kv: kv[0]):
            if isinstance(val, types.FunctionType) and val.__module__ == mname:
                funcs.append((f"{mname}.{name}", val))
            elif inspect.isclass(val) and val.__module__ == mname:
                for an, av in sorted(vars(val).items(), key=lambda kv: kv[0]):
                    f = av
                    if isinstance(av, (classmethod, staticmethod)):
                        f = av.__func__
                    if isinstance(f, property):
                        f = f.fget
                    if isinstance(f, types.FunctionType):
                        funcs.append((f"{mname}.{name}.{an}", f))
        for label, f in funcs:
            defaults = list(f.__defaults__ or ()) + list((f.__kwdefaults__ or {}).values())
            for k, d in enumerate(defaults):
                mod_of = type(d).__module__ or ""
                if mod_of.startswith("autoarray") and hasattr(d, "__dict__"):
                    if id(d) not in found:
                        found[id(d)] = (f"{label}#{k}:{type(d).__name__}", d)
    _defaults_cache = [found[k] for k in sorted(found, key=lambda i: found[i][0])]
    return _defaults_cache


def object_state_tree(obj, depth=0):
    """canonical tree of an object's instance attributes (one level of nesting into library objects)"""
    d = getattr(obj, "__dict__", None)
    if d is None:
        return compare.canon(obj)
    items = []
    for k in sorted(d):
        v = d[k]
        mod = type(v).__module__ or ""
        if depth < 1 and mod.startswith("autoarray") and hasattr(v, "__dict__") and not hasattr(v, "_array"):
            items.append((k, object_state_tree(v, depth + 1)))
        else:
            items.append((k, compare.canon(v)))
    return ("state", type(obj).__name__, tuple(items))


CONF_KEYS = [
    ("general", "fits", "flip_for_ds9"),
    ("general", "inversion", "check_reconstruction"),
    ("general", "inversion", "use_positive_only_solver"),
    ("general", "inversion", "no_regularization_add_to_curvature_diag_value"),
    ("general", "inversion", "positive_only_uses_p_initial"),
    ("general", "inversion", "use_border_relocator"),
    ("general", "structures", "native_binned_only"),
    ("general", "numba", "use_numba"),
    ("general", "pixelization", "voronoi_nn_max_interpolation_neighbors"),
    ("general", "grid", "remove_projected_centre"),
    ("general", "profiling", "repeats"),
]


def _fast_state(obj, depth=0):
    d = getattr(obj, "__dict__", None)
    if d is None:
        return compare.fast_fp(obj)
    items = []
    for k in sorted(d):
        v = d[k]
        mod = type(v).__module__ or ""
        if depth < 1 and mod.startswith("autoarray") and hasattr(v, "__dict__") and not hasattr(v, "_array"):
            items.append((k, _fast_state(v, depth + 1)))
        else:
            items.append((k, compare.fast_fp(v)))
    return (type(obj).__name__, tuple(items))


def globals_fingerprint():
    """{label: state} of every module-level default instance and of the configuration values the library reads (compared for
    equality inside one process only)."""
    from . import boot

    out = {}
    for label, obj in default_instances():
        out["default:" + label] = _fast_state(obj)
    for path in CONF_KEYS:
        try:
            v = boot.get_conf(list(path))
        except Exception as e:  # noqa: BLE001
            v = "missing:" + type(e).__name__
        out["conf:" + ".".join(path)] = repr(v)
    return out


_hidden_sites = None


def hidden_state_fingerprint():
    """
    Sizes of every module-level and class-level mutable container (dict / list / set) and of every functools cache in the
    package: process-level state that is NOT an instance attribute, a default argument or configuration.  A read that changes
    it (a memo being filled) is not a violation by itself, but the reference worker that served it retires afterwards, so that
    such state never accumulates on the reference side the way it may on the timeline.
    """
    global _hidden_sites
    if _hidden_sites is None:
        sites = []
        classes = []
        for mname in sorted(sys.modules):
            if not (mname == "autoarray" or mname.startswith("autoarray.")):
                continue
            mod = sys.modules[mname]
            if mod is None:
                continue
            for name, val in sorted(vars(mod).items(), key=lambda kv: kv[0]):
                if name.startswith("__"):
                    continue
                if isinstance(val, (dict, list, set)) or hasattr(val, "cache_info"):
                    sites.append(val)
                elif inspect.isclass(val) and val.__module__ == mname:
                    classes.append(val)
                    for an, av in vars(val).items():
                        if an.startswith("__"):
                            continue
                        if isinstance(av, (dict, list, set)) or hasattr(av, "cache_info"):
                            sites.append(av)
        _hidden_sites = (sites, classes)
    sites, classes = _hidden_sites
    out = []
    for val in sites:
        try:
            out.append(val.cache_info().currsize if hasattr(val, "cache_info") else len(val))
        except Exception:  # noqa: BLE001
            out.append(-1)
    # containers attached to a class later show up as a change in the number of class attributes
    out.append(sum(len(vars(c)) for c in classes))
    return out


def diff_fingerprints(a, b):
    return sorted(k for k in set(a) | set(b) if a.get(k) != b.get(k))


# ---------------------------------------------------------------------------------------------------
# S9: numerical routines whose failure is part of the API contract
# ---------------------------------------------------------------------------------------------------


class SolverShim:
    """For the duration of one operation, the `nth` call into a linear-algebra routine raises."""

    SITES = [
        ("numpy.linalg", "solve", "LinAlgError"),
        ("numpy.linalg", "cholesky", "LinAlgError"),
        ("numpy.linalg", "inv", "LinAlgError"),
        ("scipy.linalg", "cho_solve", "LinAlgError"),
        ("scipy.linalg", "cholesky", "LinAlgError"),
        ("scipy.linalg", "solve_triangular", "LinAlgError"),
        ("autoarray.inversion.inversion.abstract", "splu", "RuntimeError"),
    ]

    def __init__(self, nth):
        self.nth = int(nth)
        self.calls = 0
        self.fired = False
        self._saved = []

    def _wrap(self, orig, exc_name):
        shim = self

        def wrapper(*a, **k):
            shim.calls += 1
            if not shim.fired and shim.calls == shim.nth:
                shim.fired = True
                if exc_name == "LinAlgError":
                    raise np.linalg.LinAlgError("injected: singular matrix")
                raise RuntimeError("injected: factor is exactly singular")
            return orig(*a, **k)

        return wrapper

    def __enter__(self):
        import importlib

        for mname, attr, exc_name in self.SITES:
            try:
                mod = importlib.import_module(mname)
                orig = getattr(mod, attr)
            except Exception:  # noqa: BLE001
                continue
            self._saved.append((mod, attr, orig))
            setattr(mod, attr, self._wrap(orig, exc_name))
        return self

    def __exit__(self, *exc):
        for mod, attr, orig in self._saved:
            setattr(mod, attr, orig)
        self._saved = []
        return False


# ---------------------------------------------------------------------------------------------------
# S10: the profiling clock
# ---------------------------------------------------------------------------------------------------


class SimClock:
    """Stands in for the `time` module inside autoarray.numba_util: every reading advances simulated time by one tick."""

    def __init__(self):
        self.ticks = 0

    def time(self):
        self.ticks += 1
        return float(self.ticks) * 1e-3

    def __getattr__(self, name):
        import time as _t

        return getattr(_t, name)


def install_clock():
    import autoarray.numba_util as nu

    clock = SimClock()
    nu.time = clock
    return clock
