"""
Reference executor (DESIGN 3.6): the oracle's side of the wall.

A reference SERVER process is forked at the start of a run, before the first client operation, so it holds a
pristine interpreter state (module-level defaults, config, class attributes).  The server never executes a
library operation itself: it forks a WORKER that, per request, builds a pristine twin of the requested node
from the recipe, performs ONLY the requested read, canonicalises the outcome and pipes it back.  The worker
fingerprints its own process-global state before and after every read: a difference means a single pristine
operation mutates process-global state - it is reported and the worker is replaced by a fresh fork of the
(still pristine) server.

`InprocReference` is the same logic in-process (debugging only; used by `--oracle inproc`).
"""
import json
import os
import pickle
import struct
import sys
import traceback

from . import compare, seams


def _send(fd, obj):
    data = pickle.dumps(obj, protocol=pickle.HIGHEST_PROTOCOL)
    os.write(fd, struct.pack("<I", len(data)))
    view = memoryview(data)
    while view:
        n = os.write(fd, view[: 1 << 16])
        view = view[n:]


def _recv_exact(fd, n):
    chunks = []
    while n > 0:
        b = os.read(fd, n)
        if not b:
            raise EOFError("reference pipe closed")
        chunks.append(b)
        n -= len(b)
    return b"".join(chunks)


def _recv(fd):
    (n,) = struct.unpack("<I", _recv_exact(fd, 4))
    return pickle.loads(_recv_exact(fd, n))


def twin_read(specs, node_id, q, twice=False):
    """Build the construction sub-DAG of node_id (and of q's argument nodes) from raw bytes, perform q, canonicalise."""
    from sim.worlds import build, catalog

    def once():
        W = build.World()
        needed = []
        for root in [node_id] + catalog.q_nodes(q or {}):
            for i in W.closure(specs, root):
                if i not in needed:
                    needed.append(i)
        # keep recipe order (a derived node's construction may depend on the order of earlier constructions only via deps)
        order = [i for i in specs if i in needed]
        for i in order:
            W.add(specs[i])
        if node_id in W.failed:
            return ("build_failed", W.failed[node_id]), W
        for a in catalog.q_nodes(q or {}):
            if a in W.failed:
                return ("build_failed", W.failed[a]), W
        if q is None:
            return ("built",), W
        try:
            out = catalog.perform(W.env, node_id, q, world=W, node_id=node_id)
            tree = compare.canon(out)
        except (Exception, SystemExit) as e:  # noqa: BLE001
            tree = ("exc", type(e).__name__)
        owned_changed = [(r[0], r[1]) for r in W.check_owned()]
        if owned_changed:
            return ("owned_changed", tree, tuple(owned_changed)), W
        return tree, W

    before = seams.globals_fingerprint()
    hidden_before = seams.hidden_state_fingerprint()
    tree, _ = once()
    after = seams.globals_fingerprint()
    info = {"globals_changed": seams.diff_fingerprints(before, after), "hidden_state_touched": seams.hidden_state_fingerprint() != hidden_before}
    if twice:
        tree2, _ = once()
        info["repeat_equal"] = compare.digest(tree2) == compare.digest(tree)
    return tree, info


WORKER_READS = 4


class ForkReference:
    """
    parent (system-under-test timeline)  <->  SERVER (pristine, never runs library code)  ->  WORKER (runs twin reads)

    The worker is forked from the server and serves reads one after the other, each on a twin rebuilt from raw
    bytes.  Before every read it re-seeds the global numpy generator (so the reference always runs under a global
    RNG state unrelated to the timeline's) and after every read it re-fingerprints its process-global state: if
    that changed, the finding is reported with the reply and the worker retires - the server forks a fresh one
    from its own pristine state for the next request.  Forks per run: 1 server + 1 worker per WORKER_READS reads (+1 per tainting read).
    """

    def __init__(self):
        self.p2c_r, self.p2c_w = os.pipe()
        self.c2p_r, self.c2p_w = os.pipe()
        sys.stdout.flush()
        sys.stderr.flush()
        self.pid = os.fork()
        if self.pid == 0:
            try:
                os.close(self.p2c_w)
                os.close(self.c2p_r)
                self._serve()
            finally:
                os._exit(0)
        os.close(self.p2c_r)
        os.close(self.c2p_w)
        self.requests = 0

    # ---- server side (pristine; never runs a library operation itself)
    def _serve(self):
        specs = {}
        worker = None  # (pid, to_worker_fd, from_worker_fd)
        served = 0

        def spawn():
            s2w_r, s2w_w = os.pipe()
            w2s_r, w2s_w = os.pipe()
            wpid = os.fork()
            if wpid == 0:
                try:
                    os.close(s2w_w)
                    os.close(w2s_r)
                    self._work(s2w_r, w2s_w, dict(specs))
                finally:
                    os._exit(0)
            os.close(s2w_r)
            os.close(w2s_w)
            return [wpid, s2w_w, w2s_r]

        def retire(w):
            for fd in (w[1], w[2]):
                try:
                    os.close(fd)
                except OSError:
                    pass
            try:
                os.waitpid(w[0], 0)
            except ChildProcessError:
                pass

        while True:
            try:
                msg = _recv(self.p2c_r)
            except EOFError:
                break
            kind = msg[0]
            if kind == "spec":
                specs[msg[1]["id"]] = msg[1]
                if worker is not None:
                    _send(worker[1], msg)
            elif kind == "quit":
                break
            elif kind == "read":
                # the worker is recycled every few reads: process-level state the fingerprint cannot see (an lru_cache, a module
                # memo) may be touched by a read, and must not accumulate on the reference side the way it does on the timeline
                if worker is not None and served >= WORKER_READS:
                    try:
                        _send(worker[1], ("quit",))
                    except Exception:  # noqa: BLE001
                        pass
                    retire(worker)
                    worker = None
                if worker is None:
                    worker = spawn()
                    served = 0
                served += 1
                try:
                    _send(worker[1], msg)
                    status = os.read(worker[2], 1)
                except OSError:
                    status = b""
                if status != b"k":  # tainted (b"t") or dead (b""): never reuse
                    if status == b"":
                        try:
                            _send(self.c2p_w, ("error", "reference worker died"))
                        except Exception:  # noqa: BLE001
                            break
                    retire(worker)
                    worker = None
        if worker is not None:
            try:
                _send(worker[1], ("quit",))
            except Exception:  # noqa: BLE001
                pass
            retire(worker)

    # ---- worker side
    def _work(self, rfd, status_fd, specs):
        import numpy as np

        while True:
            try:
                msg = _recv(rfd)
            except EOFError:
                return
            if msg[0] == "spec":
                specs[msg[1]["id"]] = msg[1]
                continue
            if msg[0] == "quit":
                return
            _, node_id, q, twice = msg
            tainted = False
            try:
                np.random.seed(20241113)
                tree, info = twin_read(specs, node_id, q, twice)
                tainted = bool(info.get("globals_changed")) or bool(info.get("hidden_state_touched"))
                out = ("ok", tree, info)
            except BaseException:  # noqa: BLE001
                out = ("error", traceback.format_exc())
                tainted = True
            _send(self.c2p_w, out)
            os.write(status_fd, b"t" if tainted else b"k")
            if tainted:
                return

    # ---- client side
    def add_spec(self, spec):
        _send(self.p2c_w, ("spec", spec))

    def read(self, node_id, q, twice=False):
        self.requests += 1
        _send(self.p2c_w, ("read", node_id, q, twice))
        out = _recv(self.c2p_r)
        if out[0] != "ok":
            raise RuntimeError("reference executor failed: " + str(out[1]))
        return out[1], out[2]

    def close(self):
        try:
            _send(self.p2c_w, ("quit",))
        except Exception:  # noqa: BLE001
            pass
        for fd in (self.p2c_w, self.c2p_r):
            try:
                os.close(fd)
            except OSError:
                pass
        try:
            os.waitpid(self.pid, 0)
        except ChildProcessError:
            pass


class InprocReference:
    """Same logic without the wall (debugging only): shares process-global state with the system under test."""

    def __init__(self):
        self.specs = {}
        self.requests = 0

    def add_spec(self, spec):
        self.specs[spec["id"]] = spec

    def read(self, node_id, q, twice=False):
        import numpy as np

        self.requests += 1
        state = np.random.get_state()
        cwd = os.getcwd()
        try:
            return twin_read(self.specs, node_id, q, twice)
        finally:
            np.random.set_state(state)
            os.chdir(cwd)

    def close(self):
        pass
