#!/venv/bin/python
"""Regenerate the sensitivity table of DESIGN.md section 11.4 from mutants/results.json, mutants/*/*.json and seeded/*/meta.json."""
import glob, json, os, re
V = "/verif"
res = {r["name"]: r for r in json.load(open(f"{V}/mutants/results.json"))["results"]}
rows = []
for prop in ("C11", "C15", "C16"):
    for p in sorted(glob.glob(f"{V}/mutants/{prop}/*.json")):
        name = f"{prop}/" + os.path.basename(p)[:-5]
        spec = json.load(open(p))
        r = res.get(name, {})
        rows.append((prop, os.path.basename(p)[:-5], spec["description"], spec.get("expect", "caught"), r))
    for d in sorted(glob.glob(f"{V}/seeded/S{prop[1:]}-*")):
        meta = json.load(open(os.path.join(d, "meta.json")))
        name = "seeded/" + os.path.basename(d)
        first = meta.get("first_result", "")
        what = meta["what"].strip().splitlines()
        desc = next((l.strip("# *-").strip() for l in what if len(l.strip()) > 30 and not l.startswith("#")), what[0] if what else "")
        needs = meta.get("needs", "")
        rows.append((prop, os.path.basename(d), (desc[:230] + ("…" if len(desc) > 230 else "")) + (f" **Needs:** {needs}" if needs else "") + (f" *({first})*" if first else ""), meta.get("expect", "caught"), res.get(name, {})))
for d in sorted(glob.glob(f"{V}/seeded/B*")):
    meta = json.load(open(os.path.join(d, "meta.json")))
    what = meta["what"].strip().splitlines()
    desc = next((l.strip("# *-").strip() for l in what if len(l.strip()) > 30 and not l.startswith("#")), what[0] if what else "")
    for prop in ("C11", "C15", "C16"):
        rows.append((prop, os.path.basename(d) + "@" + prop, "behaviour-preserving refactor: " + desc[:200], "survives", res.get("seeded/" + os.path.basename(d) + "@" + prop, {})))
out = ["| property | item | change | expected | quick check says | first violation class reported |", "|---|---|---|---|---|---|"]
for prop, name, desc, expect, r in rows:
    if not r:
        verdict, cls = "not run", ""
    else:
        verdict = "**caught**" if r.get("caught") else ("survived" if r.get("exit") == 0 else f"exit {r.get('exit')}")
        if r.get("runs"):
            verdict += f" [{r.get('violating_runs')} of {r.get('runs')} runs]"
        if r.get("repo_tests_still_pass") is True:
            verdict += " (repo suite still passes)"
        elif r.get("repo_tests_still_pass") is False:
            verdict += " (repo suite FAILS with it)"
        v = (r.get("violation_lines") or [""])[0]
        m = re.match(r"violation: (\S+) on (\S+)", v)
        cls = f"`{m.group(1)}` on `{m.group(2)}`" if m else ""
    out.append(f"| {prop} | {name} | {desc.replace('|', '/')} | {expect} | {verdict} | {cls} |")
table = "\n".join(out)
p = f"{V}/DESIGN.md"
s = open(p).read()
if "SENSITIVITY_TABLE_PLACEHOLDER" in s:
    s = s.replace("SENSITIVITY_TABLE_PLACEHOLDER", "<!-- sensitivity table: begin -->\n" + table + "\n<!-- sensitivity table: end -->")
else:
    s = re.sub(r"<!-- sensitivity table: begin -->.*<!-- sensitivity table: end -->", lambda m: "<!-- sensitivity table: begin -->\n" + table + "\n<!-- sensitivity table: end -->", s, flags=re.S)
open(p, "w").write(s)
print(len(rows), "rows")
