#!/bin/bash
# tools/soak.sh <first_seed> <last_seed> [props...]: quick checks under many batch seeds; any VIOLATION on the unchanged tree is a
# false alarm (or a genuine defect) to triage.  Writes soak.log in the current directory.
a=$1; b=$2; shift 2; props=${@:-C16 C15 C11}
for s in $(seq $a $b); do for p in $props; do
  out=$(VERIF_SEED=$s VERIF_EVIDENCE_DIR=/dev/shm/soak-evidence ./check $p --tier quick 2>&1 | grep -v condarc); rc=$?
  echo "seed=$s $p $(echo "$out" | tail -1)" | tee -a soak.log
  echo "$out" | grep -A3 "^violation\|HARNESS" | tee -a soak.log
done; done
