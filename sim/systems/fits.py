"""
System `fits` (property C16): the library's FITS surface against a real directory tree on tmpfs, refined
operation by operation against a reference model   path -> Determinate | Absent | Indeterminate | Foreign.

Clients (writers, readers, HDU-route users) share few contended paths; the seeded scheduler interleaves
them and inserts environment events: flip of the DS9 option, chdir, pre-existing targets, and - in the
separate fault-injecting mode - one-shot file-system faults at the call sites the library uses.
See DESIGN.md section 6.
"""
import errno
import hashlib
import json
import os
import pathlib
import shutil

import numpy as np

from sim.core import boot, compare, eventlog, findings, prng

NAME = "fits"
PROPERTY = "C16"

PATH_POOL = ["a.fits", "d1/b.fits", "d1/d2/c.fits", "e.fits", "d3/f.fits", "d1/g.fits", "d4/d5/d6/h.fits"]
CWD_POOL = ["", "d1", "cw"]
KIND_CLASS = {
    "array2d": "Array2D",
    "mask2d": "Mask2D",
    "kernel2d": "Kernel2D",
    "array1d": "Array1D",
    "mask1d": "Mask1D",
    "imaging": "Imaging",
}
FAULT_SITES = ("makedirs", "remove", "writeto", "torn")


class StopRun(Exception):
    pass


# ---------------------------------------------------------------------------------------------------
# world generation
# ---------------------------------------------------------------------------------------------------


def _gen_value(rng, style):
    if style == "ints":
        return float(rng.randrange(-9, 10))
    if style == "normal":
        return rng.gauss(0.0, 1.0)
    if style == "positive":
        return abs(rng.gauss(0.0, 1.0)) + 0.01
    if style == "extreme":
        m = rng.choice([1e-300, 1e-30, 1e-5, 1.0, 1e5, 1e30, 1e300])
        return rng.choice([-1.0, 1.0]) * m * (0.5 + rng.random())
    raise ValueError(style)


def _gen_values(rng, n, style):
    vals = [_gen_value(rng, style) for _ in range(n)]
    # non-symmetric content: make every entry distinct so a flip / transpose slip cannot hide
    seen = set()
    for i, v in enumerate(vals):
        while v in seen:
            v = v + (i + 1) * (1.0 if style == "ints" else abs(v) * 1e-3 + 1e-310)
        seen.add(v)
        vals[i] = v
    return [prng.fhex(v) for v in vals]


def _gen_bits(rng, n, p_masked):
    bits = [1 if rng.random() < p_masked else 0 for _ in range(n)]
    if all(bits):
        bits[rng.randrange(n)] = 0
    return "".join(str(b) for b in bits)


def _gen_scales(rng, aniso_ok=True):
    base = rng.choice([0.05, 0.1, 0.5, 1.0, 2.0, 3.7])
    if aniso_ok and rng.random() < 0.08:
        # anisotropic but CLOSE: scales that differ by less than any "is it the same?" tolerance a writer might apply,
        # and scales in small units (radians) where a 4 % anisotropy is an absolute difference of 2e-9
        return rng.choice([[base, base + 5e-9], [base + 2e-9, base], [4.8e-8, 5.0e-8], [1e-6, 1.000001e-6]])
    if aniso_ok and rng.random() < 0.3:
        other = rng.choice([s for s in [0.05, 0.1, 0.5, 1.0, 2.0, 3.7] if s != base])
        return [base, other]
    return [base, base]


def _gen_shape2d(rng):
    r = rng.random()
    if r < 0.15:
        return [1, rng.randrange(1, 7)]
    if r < 0.3:
        return [rng.randrange(1, 7), 1]
    return [rng.randrange(1, 7), rng.randrange(1, 7)]


def _gen_post(rng):
    """The object that is written is often not fresh from a constructor: it went through representation changes and
    arithmetic first (its storage state is part of the history the FITS surface meets)."""
    if rng.random() < 0.55:
        return []
    ops = []
    for _ in range(rng.randrange(1, 4)):
        r = rng.random()
        if r < 0.3:
            ops.append(["native"])
        elif r < 0.45:
            ops.append(["slim"])
        elif r < 0.65:
            ops.append(["add", rng.choice([1.0, -2.5, 0.125])])
        elif r < 0.8:
            ops.append(["rsub", rng.choice([10.0, 0.5])])
        elif r < 0.9:
            ops.append(["mul", rng.choice([2.0, -0.5])])
        else:
            ops.append(["neg"])
    return ops


def gen_recipe(rng_world, rng_values, knobs):
    n = rng_world.randrange(3, 7)
    kinds = knobs["kinds"]
    recipe = []
    for i in range(n):
        kind = rng_world.choice(kinds)
        style = rng_values.choice(["ints", "normal", "extreme", "normal"])
        oid = f"o{i}"
        if kind == "array2d":
            shape = _gen_shape2d(rng_world)
            masked = rng_world.random() < 0.35
            recipe.append(
                {
                    "id": oid,
                    "kind": kind,
                    "shape": shape,
                    "values": _gen_values(rng_values, shape[0] * shape[1], style),
                    "pixel_scales": _gen_scales(rng_world),
                    "mask": _gen_bits(rng_world, shape[0] * shape[1], 0.4) if masked else None,
                    "store_native": rng_world.random() < 0.25,
                    "post": _gen_post(rng_world),
                }
            )
        elif kind == "mask2d":
            shape = _gen_shape2d(rng_world)
            recipe.append(
                {
                    "id": oid,
                    "kind": kind,
                    "shape": shape,
                    "bits": _gen_bits(rng_world, shape[0] * shape[1], 0.5),
                    "pixel_scales": _gen_scales(rng_world),
                }
            )
        elif kind == "kernel2d":
            shape = [rng_world.choice([1, 3, 5]), rng_world.choice([1, 3, 5])]
            recipe.append(
                {
                    "id": oid,
                    "kind": kind,
                    "shape": shape,
                    "values": _gen_values(rng_values, shape[0] * shape[1], rng_values.choice(["normal", "positive", "extreme"])),
                    "pixel_scales": _gen_scales(rng_world),
                }
            )
        elif kind == "array1d":
            nn = rng_world.randrange(1, 9)
            masked = rng_world.random() < 0.35
            recipe.append(
                {
                    "id": oid,
                    "kind": kind,
                    "n": nn,
                    "values": _gen_values(rng_values, nn, style),
                    "pixel_scales": [_gen_scales(rng_world, False)[0]],
                    "mask": _gen_bits(rng_world, nn, 0.4) if masked else None,
                    "store_native": rng_world.random() < 0.25,
                    "post": _gen_post(rng_world),
                }
            )
        elif kind == "mask1d":
            nn = rng_world.randrange(1, 9)
            recipe.append(
                {
                    "id": oid,
                    "kind": kind,
                    "n": nn,
                    "bits": _gen_bits(rng_world, nn, 0.5),
                    "pixel_scales": [_gen_scales(rng_world, False)[0]],
                }
            )
        elif kind == "imaging":
            shape = [rng_world.randrange(3, 7), rng_world.randrange(3, 7)]
            ps = _gen_scales(rng_world, False)
            kshape = [rng_world.choice([1, 3]), rng_world.choice([1, 3])]
            recipe.append(
                {
                    "id": oid,
                    "kind": kind,
                    "shape": shape,
                    "pixel_scales": ps,
                    "data": _gen_values(rng_values, shape[0] * shape[1], style),
                    "noise": _gen_values(rng_values, shape[0] * shape[1], "positive"),
                    "kshape": kshape,
                    "psf": _gen_values(rng_values, kshape[0] * kshape[1], "positive"),
                }
            )
    return recipe


class Obj:
    """A recipe node built into a live library object + what the model expects a round trip to return."""

    def __init__(self, spec):
        import autoarray as aa

        self.spec = spec
        self.id = spec["id"]
        self.kind = spec["kind"]
        self.cls_name = KIND_CLASS[self.kind]
        k = self.kind
        ps = tuple(float(s) for s in spec["pixel_scales"])
        self.pixel_scales = ps
        self.is2d = k in ("array2d", "mask2d", "kernel2d")
        if k in ("array2d", "kernel2d"):
            shape = tuple(spec["shape"])
            vals = np.array([prng.unhex(v) for v in spec["values"]], dtype=np.float64).reshape(shape)
            if k == "array2d" and spec.get("mask"):
                bits = np.array([c == "1" for c in spec["mask"]]).reshape(shape)
                self.obj = aa.Array2D(values=vals.copy(), mask=aa.Mask2D(mask=bits.copy(), pixel_scales=ps), store_native=bool(spec.get("store_native")))
                self.bits = bits
                self._post(spec, vals, bits)
            elif k == "array2d":
                self.obj = aa.Array2D(values=vals.copy(), mask=aa.Mask2D.all_false(shape_native=shape, pixel_scales=ps), store_native=bool(spec.get("store_native")))
                self._post(spec, vals, None)
            else:
                self.obj = aa.Kernel2D.no_mask(values=vals.copy(), pixel_scales=ps, normalize=False)
                self.expected = vals
        elif k == "mask2d":
            shape = tuple(spec["shape"])
            bits = np.array([c == "1" for c in spec["bits"]]).reshape(shape)
            self.obj = aa.Mask2D(mask=bits.copy(), pixel_scales=ps)
            self.expected = bits.astype(np.float64)
            self.bits = bits
        elif k == "array1d":
            vals = np.array([prng.unhex(v) for v in spec["values"]], dtype=np.float64)
            if spec.get("mask"):
                bits = np.array([c == "1" for c in spec["mask"]])
                self.obj = aa.Array1D(values=vals.copy(), mask=aa.Mask1D(mask=bits.copy(), pixel_scales=ps), store_native=bool(spec.get("store_native")))
                self._post(spec, vals, bits)
            else:
                self.obj = aa.Array1D(values=vals.copy(), mask=aa.Mask1D(mask=np.zeros(len(vals), dtype=bool), pixel_scales=ps), store_native=bool(spec.get("store_native")))
                self._post(spec, vals, None)
        elif k == "mask1d":
            bits = np.array([c == "1" for c in spec["bits"]])
            self.obj = aa.Mask1D(mask=bits.copy(), pixel_scales=ps)
            self.expected = bits.astype(np.float64)
            self.bits = bits
        elif k == "imaging":
            shape = tuple(spec["shape"])
            kshape = tuple(spec["kshape"])
            data = np.array([prng.unhex(v) for v in spec["data"]]).reshape(shape)
            noise = np.array([prng.unhex(v) for v in spec["noise"]]).reshape(shape)
            psf = np.array([prng.unhex(v) for v in spec["psf"]]).reshape(kshape)
            self.obj = aa.Imaging(
                data=aa.Array2D.no_mask(values=data.copy(), pixel_scales=ps),
                noise_map=aa.Array2D.no_mask(values=noise.copy(), pixel_scales=ps),
                psf=aa.Kernel2D.no_mask(values=psf.copy(), pixel_scales=ps, normalize=False),
            )
            self.parts = {"data": data, "noise": noise, "psf": psf / psf.sum()}
            self.expected = None
        else:
            raise ValueError(k)
        self.aniso = len(ps) == 2 and ps[0] != ps[1]

    def _post(self, spec, vals, bits):
        """Apply the recipe's representation changes / arithmetic; the model follows with plain numpy on the unmasked values."""
        exp = np.array(vals, dtype=np.float64)
        for op in spec.get("post") or []:
            name = op[0]
            if name == "native":
                self.obj = self.obj.native
            elif name == "slim":
                self.obj = self.obj.slim
            elif name == "add":
                self.obj = self.obj + op[1]
                exp = exp + op[1]
            elif name == "rsub":
                self.obj = op[1] - self.obj
                exp = op[1] - exp
            elif name == "mul":
                self.obj = self.obj * op[1]
                exp = exp * op[1]
            elif name == "neg":
                self.obj = -self.obj
                exp = -exp
        self.expected = exp if bits is None else np.where(bits, 0.0, exp)


# ---------------------------------------------------------------------------------------------------
# fault shims (seam S8): confined to the library's own call sites
# ---------------------------------------------------------------------------------------------------


class _OsPathProxy:
    def __init__(self, real):
        self._real = real

    def __getattr__(self, name):
        return getattr(self._real, name)


class _OsProxy:
    """Stands in for the `os` module inside the library's FITS utility modules for the duration of one op."""

    def __init__(self, real, shim):
        self._real = real
        self._shim = shim
        self.path = real.path

    def __getattr__(self, name):
        return getattr(self._real, name)

    def makedirs(self, *a, **k):
        self._shim.calls["makedirs"] += 1
        if self._shim.armed == "makedirs":
            self._shim.fire("makedirs")
            raise OSError(self._shim.err, os.strerror(self._shim.err), str(a[0]) if a else "")
        return self._real.makedirs(*a, **k)

    def remove(self, *a, **k):
        self._shim.calls["remove"] += 1
        if self._shim.armed == "remove":
            self._shim.fire("remove")
            raise OSError(self._shim.err, os.strerror(self._shim.err), str(a[0]) if a else "")
        return self._real.remove(*a, **k)


class FsShim:
    def __init__(self):
        self.armed = None
        self.err = errno.ENOSPC
        self.nbytes = 0
        self.fired = None
        self.calls = {"makedirs": 0, "remove": 0, "writeto": 0}

    def fire(self, site):
        self.fired = site
        self.armed = None

    def __enter__(self):
        from astropy.io import fits
        from autoarray.structures.arrays import array_1d_util, array_2d_util

        self._mods = [m for m in (array_2d_util, array_1d_util) if getattr(m, "os", None) is os]
        for m in self._mods:
            m.os = _OsProxy(os, self)
        self._fits = fits
        self._orig_writeto = fits.PrimaryHDU.writeto
        shim = self

        def writeto(hdu, name, *a, **k):
            shim.calls["writeto"] += 1
            if shim.armed == "writeto":
                shim.fire("writeto")
                raise OSError(shim.err, os.strerror(shim.err), str(name))
            if shim.armed == "torn":
                shim._orig_writeto(hdu, name, *a, **k)
                with open(name, "r+b") as f:
                    f.truncate(shim.nbytes)
                shim.fire("torn")
                raise OSError(errno.ENOSPC, os.strerror(errno.ENOSPC), str(name))
            return shim._orig_writeto(hdu, name, *a, **k)

        fits.PrimaryHDU.writeto = writeto
        return self

    def __exit__(self, *exc):
        for m in self._mods:
            m.os = os
        self._fits.PrimaryHDU.writeto = self._orig_writeto
        return False


# ---------------------------------------------------------------------------------------------------
# the simulation
# ---------------------------------------------------------------------------------------------------


def sha(b: bytes) -> str:
    return hashlib.sha1(b).hexdigest()[:16]


VOLATILE_CARDS = ("DATE", "CHECKSUM", "DATASUM", "HISTORY", "COMMENT", "")


def fits_content(data: bytes):
    """
    What a FITS file CONTAINS, independent of when it was written: per HDU its kind, data dtype/shape/bytes and its header cards
    except volatile ones (DATE*, CHECKSUM, DATASUM, HISTORY, COMMENT).  Used for "the new content fully replaces the old": a
    maintainer adding a creation-date card must not turn the byte comparison into a once-per-second-boundary false alarm.
    Falls back to the raw bytes when the file cannot be parsed.
    """
    import io

    from astropy.io import fits

    try:
        out = []
        with fits.open(io.BytesIO(data), memmap=False) as hl:
            for h in hl:
                d = h.data
                cards = tuple(sorted((k, repr(v)) for k, v in h.header.items() if not any(k.startswith(p) and (p or k == "") for p in VOLATILE_CARDS)))
                out.append((type(h).__name__, None if d is None else (str(d.dtype), tuple(d.shape), sha(np.ascontiguousarray(d).tobytes())), cards))
        return ("fits", tuple(out))
    except Exception:  # noqa: BLE001
        return ("raw", sha(data))


class FitsSim:
    def __init__(self, run_seed, case, cfg, known):
        self.run_seed = run_seed
        self.cfg = cfg
        self.known = known or []
        self.replaying = case is not None
        self.mode = (case or {}).get("mode") or cfg.get("mode") or "nofault"
        self.streams = prng.streams(run_seed)
        self.log = eventlog.EventLog(run_seed, NAME)
        self.known_hits = []
        self.violation = None
        self.stats = {
            "ops": 0,
            "env": 0,
            "faults_fired": {},
            "checked": 0,
            "reference_reads": 0,
            "unchecked": {},
            "probes": {},
            "state_op_pairs": set(),
            "order_pairs": set(),
            "clients": set(),
        }
        if case is not None:
            self.knobs = case["knobs"]
            self.recipe = case["recipe"]
            self.in_schedule = list(case["schedule"])
        else:
            self.knobs = self.gen_knobs()
            self.recipe = gen_recipe(self.streams["world"], self.streams["values"], self.knobs)
            self.in_schedule = None
        self.schedule = []  # what was actually executed (the replay file)
        self.root = os.path.join(boot.scratch_root(), f"run-{run_seed}-{os.getpid()}")
        self.model = {}  # logical path -> state dict
        self.flip = False
        self.cwd = ""
        self.armed = None
        self.last_op_kind = None
        self.recent_write = None
        self.nref = 0

    # -- knobs (swarm: every run draws its own configuration) -------------------------------------

    def gen_knobs(self):
        r = self.streams["world"]
        all_kinds = ["array2d", "mask2d", "kernel2d", "array1d", "mask1d", "imaging"]
        kinds = [k for k in all_kinds if r.random() < 0.7] or ["array2d"]
        if "array2d" not in kinds and r.random() < 0.5:
            kinds.append("array2d")
        n_paths = r.randrange(2, 6)
        paths = r.sample(PATH_POOL, n_paths)
        forms = [f for f in ("abs", "Path", "rel") if r.random() < 0.75] or ["abs"]
        fault_sites = [s for s in FAULT_SITES if r.random() < 0.6] or [r.choice(FAULT_SITES)]
        return {
            "kinds": kinds,
            "paths": paths,
            "forms": forms,
            "n_ops": r.randrange(15, 50),
            "n_clients": r.randrange(2, 5),
            "p_flip": r.choice([0.0, 0.03, 0.1]),
            "flip0": r.random() < 0.5,
            "p_chdir": r.choice([0.0, 0.05, 0.15]),
            "p_preexist": r.choice([0.0, 0.05, 0.12]),
            "p_cleanup": r.choice([0.0, 0.04, 0.1]),
            "p_overwrite": r.choice([0.3, 0.5, 0.8]),
            "p_fault": r.choice([0.08, 0.15, 0.3]) if self.mode == "fault" else 0.0,
            "fault_sites": fault_sites if self.mode == "fault" else [],
        }

    # -- helpers ----------------------------------------------------------------------------------

    def probe(self, name, n=1):
        self.stats["probes"][name] = self.stats["probes"].get(name, 0) + n

    def abs_of(self, logical):
        return os.path.join(self.root, logical)

    def path_arg(self, logical, form):
        """The path argument as the client passes it.  -> (argument, effective form) ; form may degrade."""
        a = self.abs_of(logical)
        if form == "Path":
            return pathlib.Path(a), "Path"
        if form == "rel":
            cwd_abs = self.abs_of(self.cwd) if self.cwd else self.root
            rel = os.path.relpath(a, cwd_abs)
            if not rel.startswith(".."):
                return rel, ("bare" if os.sep not in rel else "rel")
        return a, "abs"

    def file_bytes(self, logical):
        p = self.abs_of(logical)
        if not os.path.isfile(p):
            return None
        with open(p, "rb") as f:
            return f.read()

    def state_kind(self, logical):
        st = self.model.get(logical)
        return st["kind"] if st else "absent"

    def report(self, kind, target_type, quantity, condition, expected, got, step):
        v = {
            "property": PROPERTY,
            "kind": kind,
            "target_type": target_type,
            "quantity": quantity,
            "condition": condition,
            "expected": expected,
            "got": got,
            "step": step,
        }
        hit = findings.match(v, self.known, PROPERTY)
        if hit is not None:
            v["finding_id"] = hit.get("id")
            self.known_hits.append(v)
            return False
        self.violation = v
        raise StopRun()

    # -- the run ----------------------------------------------------------------------------------

    def run(self):
        boot.boot()
        os.makedirs(self.root, exist_ok=True)
        status = "ok"
        try:
            self.objs = {}
            for spec in self.recipe:
                self.objs[spec["id"]] = Obj(spec)
            self.set_flip(self.knobs.get("flip0", False))
            os.chdir(self.root)
            try:
                if self.replaying:
                    for step, op in enumerate(self.in_schedule):
                        self.apply(op, step)
                else:
                    self.generate_and_run()
            except StopRun:
                status = "violation"
        finally:
            try:
                os.chdir(boot.scratch_root())
            except Exception:
                pass
            shutil.rmtree(self.root, ignore_errors=True)
        return self.result(status)

    def result(self, status):
        st = self.stats
        sig = hashlib.sha1(
            json.dumps(
                [[(s["kind"], s.get("shape") or s.get("n")) for s in self.recipe], [self.op_shape(o) for o in self.schedule]],
                sort_keys=True,
            ).encode()
        ).hexdigest()[:16]
        fired = sum(st["faults_fired"].values())
        nontrivial = (len(st["clients"]) >= 2 or fired >= 1) and st["checked"] >= 5
        return {
            "run_seed": self.run_seed,
            "status": status,
            "violation": self.violation,
            "known_hits": self.known_hits,
            "case": {
                "property": PROPERTY,
                "system": NAME,
                "mode": self.mode,
                "run_seed": self.run_seed,
                "knobs": self.knobs,
                "recipe": self.recipe,
                "schedule": self.schedule,
            },
            "stats": {
                "ops": st["ops"],
                "env": st["env"],
                "faults_fired": st["faults_fired"],
                "checked": st["checked"],
                "reference_reads": st["reference_reads"],
                "unchecked": st["unchecked"],
                "probes": st["probes"],
                "cache_states": sorted(st["state_op_pairs"]),
                "order_pairs": sorted(st["order_pairs"]),
                "signature": sig,
                "nontrivial": bool(nontrivial),
                "sim_ticks": 0,
                "core_built": True,
            },
            "log_digest": self.log.digest(),
        }

    @staticmethod
    def op_shape(o):
        return [o.get("op"), o.get("kind"), o.get("obj"), o.get("reader"), o.get("form"), o.get("overwrite"), o.get("what"), o.get("site")]

    # -- generation: the seeded scheduler ---------------------------------------------------------

    def generate_and_run(self):
        rs, rf = self.streams["schedule"], self.streams["faults"]
        k = self.knobs
        n_clients = k["n_clients"]
        ids = [o["id"] for o in self.recipe]
        # client affinity: each client owns 1-3 objects and prefers 1-2 paths
        clients = []
        for c in range(n_clients):
            role = rs.choice(["writer", "writer", "reader", "hdu"])
            clients.append(
                {
                    "name": f"{role[0]}{c}",
                    "role": role,
                    "objs": rs.sample(ids, min(len(ids), rs.randrange(1, 4))),
                    "paths": rs.sample(k["paths"], min(len(k["paths"]), rs.randrange(1, 3))),
                }
            )
        if not any(c["role"] == "writer" for c in clients):
            clients[0]["role"] = "writer"
        step = 0
        idle = 0
        n_ops = k["n_ops"]
        while step < n_ops and idle < 200:
            # environment events, biased to land between operations that create in-flight state
            u = rf.random()
            if u < k["p_flip"]:
                self.apply({"op": "env", "kind": "flip", "value": not self.flip}, step)
                step += 1
                continue
            if u < k["p_flip"] + k["p_chdir"]:
                self.apply({"op": "env", "kind": "chdir", "dir": rf.choice(CWD_POOL)}, step)
                step += 1
                continue
            if u < k["p_flip"] + k["p_chdir"] + k["p_preexist"]:
                self.apply(
                    {
                        "op": "env",
                        "kind": "preexist",
                        "path": rf.choice(k["paths"]),
                        "what": rf.choice(["garbage", "empty", "torn", "foreign_fits", "dir_only"]),
                        "n": rf.randrange(1, 3000),
                    },
                    step,
                )
                step += 1
                continue
            if u < k["p_flip"] + k["p_chdir"] + k["p_preexist"] + k.get("p_cleanup", 0.0):
                # storage event: somebody clears an output directory (a previous run's results) between two operations
                dirs = sorted({os.path.dirname(x) for x in k["paths"] if os.path.dirname(x)})
                if dirs:
                    self.apply({"op": "env", "kind": "cleanup", "dir": rf.choice(dirs)}, step)
                    step += 1
                    continue
            client = rs.choice(clients)
            op = self.propose(client, rs)
            if op is None:
                idle += 1  # nothing applicable for this client in this state (bounded: no run can spin)
                continue
            if op["op"] in ("write", "imaging_write") and k["p_fault"] and rf.random() < k["p_fault"]:
                site = rf.choice(k["fault_sites"])
                self.apply(
                    {
                        "op": "env",
                        "kind": "arm_fault",
                        "site": site,
                        "errno": rf.choice(["ENOSPC", "EACCES", "EIO"]),
                        "nbytes": rf.choice([0, 1, 80, 2879, 2880, 2881, 5000]),
                    },
                    step,
                )
                step += 1
            self.apply(op, step)
            step += 1

    def propose(self, client, rs):
        k = self.knobs
        role = client["role"]
        # reader-after-writer bias: the path just written is the most interesting thing to read
        if self.recent_write is not None and role != "hdu" and rs.random() < 0.5:
            logical, okind = self.recent_write
            self.recent_write = None
            return self.read_op(client, logical, okind, rs)
        oid = rs.choice(client["objs"])
        obj = self.objs[oid]
        form = rs.choice(k["forms"])
        if role == "hdu" or (role == "writer" and rs.random() < 0.15):
            if obj.kind == "imaging":
                order = [0, 1, 2]
                rs.shuffle(order)
                return {"op": "imaging_one_file", "client": client["name"], "obj": oid, "order": order}
            r = rs.random()
            if r < 0.5:
                return {"op": "hdu_rt", "client": client["name"], "obj": oid}
            if r < 0.8:
                return {"op": "hdu_file", "client": client["name"], "obj": oid}
            others = [o for o in self.objs.values() if o.kind != "imaging" and o.is2d == obj.is2d]
            picks = [oid] + [rs.choice(others).id for _ in range(rs.randrange(1, 3))]
            return {"op": "multi_hdu", "client": client["name"], "objs": picks}
        path = rs.choice(client["paths"]) if rs.random() < 0.8 else rs.choice(k["paths"])
        if role == "writer":
            if obj.kind == "imaging":
                paths = [rs.choice(k["paths"]) for _ in range(3)]
                if len(set(paths)) < 3:
                    return None
                return {
                    "op": "imaging_write",
                    "client": client["name"],
                    "obj": oid,
                    "paths": paths,
                    "form": form,
                    "overwrite": rs.random() < k["p_overwrite"],
                }
            return {
                "op": "write",
                "client": client["name"],
                "obj": oid,
                "path": path,
                "form": form,
                "overwrite": rs.random() < k["p_overwrite"],
            }
        # reader
        st = self.model.get(path)
        okind = st.get("okind") if st and st["kind"] == "det" else obj.kind
        if st and st["kind"] == "det" and st.get("group") and rs.random() < 0.5:
            return {"op": "imaging_read", "client": client["name"], "group": st["group"], "form": form}
        return self.read_op(client, path, okind, rs)

    def read_op(self, client, logical, okind, rs):
        form = rs.choice(self.knobs["forms"])
        if okind in ("array2d", "kernel2d", "imaging", None):
            reader = rs.choice(["Array2D", "Array2D", "Kernel2D"])
        elif okind == "mask2d":
            reader = rs.choice(["Mask2D", "Mask2D", "Array2D"])
        elif okind == "array1d":
            reader = "Array1D"
        else:
            reader = rs.choice(["Mask1D", "Array1D"])
        op = {"op": "read", "client": client["name"], "reader": reader, "path": logical, "form": form}
        if reader == "Mask2D":
            r = rs.random()
            if r < 0.3:
                op["invert"] = True
            elif r < 0.6:
                op["resized"] = [rs.randrange(1, 9), rs.randrange(1, 9)]
        if rs.random() < 0.3:
            op["pixel_scales"] = rs.choice([0.2, 1.0, [1.0, 2.0]]) if reader not in ("Array1D", "Mask1D") else rs.choice([0.2, 1.0])
        if reader == "Kernel2D" and rs.random() < 0.3:
            op["normalize"] = True
        return op

    # -- applying one operation (both generation and replay go through here) ----------------------

    def set_flip(self, v):
        self.flip = bool(v)
        boot.set_conf(["general", "fits", "flip_for_ds9"], self.flip)

    def apply(self, op, step):
        kind = op["op"]
        handler = getattr(self, "do_" + kind, None)
        if handler is None:
            return
        self.schedule.append(op)
        ok = handler(op, step)
        if ok is False:
            self.schedule.pop()  # op not applicable in this state (possible after shrinking): skipped, not recorded
            return
        if kind == "env":
            self.stats["env"] += 1
        else:
            self.stats["ops"] += 1
            self.stats["clients"].add(op.get("client"))
            if self.last_op_kind is not None:
                self.stats["order_pairs"].add(f"{self.last_op_kind}->{kind}")
            self.last_op_kind = kind

    # environment events

    def do_env(self, op, step):
        k = op["kind"]
        if k == "flip":
            self.set_flip(op["value"])
            self.log.append(ev="env", kind="flip", value=self.flip)
        elif k == "chdir":
            d = op["dir"]
            os.makedirs(self.abs_of(d) if d else self.root, exist_ok=True)
            os.chdir(self.abs_of(d) if d else self.root)
            self.cwd = d
            self.log.append(ev="env", kind="chdir", dir=d)
        elif k == "preexist":
            logical = op["path"]
            if logical not in self.knobs["paths"] and logical not in PATH_POOL:
                return False
            p = self.abs_of(logical)
            os.makedirs(os.path.dirname(p), exist_ok=True)
            what = op["what"]
            if what == "dir_only":
                self.log.append(ev="env", kind="preexist", path=logical, what=what)
                return True
            if os.path.exists(p):
                os.remove(p)
            if what == "garbage":
                data = bytes((i * 37 + op.get("n", 1)) % 256 for i in range(op.get("n", 10)))
            elif what == "empty":
                data = b""
            else:
                from astropy.io import fits

                arr = np.arange(12.0).reshape(3, 4) + op.get("n", 0)
                tmp = p + ".tmp"
                fits.PrimaryHDU(arr).writeto(tmp)
                with open(tmp, "rb") as f:
                    data = f.read()
                os.remove(tmp)
                if what == "torn":
                    data = data[: op.get("n", 100) % len(data)]
            with open(p, "wb") as f:
                f.write(data)
            self.model[logical] = {"kind": "foreign", "what": what, "sha": sha(data)}
            self.log.append(ev="env", kind="preexist", path=logical, what=what, sha=sha(data))
        elif k == "cleanup":
            d = op["dir"]
            top = d.split("/")[0]
            full = self.abs_of(top)
            cwd_abs = os.path.realpath(os.getcwd())
            if not os.path.isdir(full) or cwd_abs == os.path.realpath(full) or cwd_abs.startswith(os.path.realpath(full) + os.sep):
                return False  # nothing to clear, or the client is standing in it
            shutil.rmtree(full)
            for logical in list(self.model):
                if logical == top or logical.startswith(top + "/"):
                    self.model.pop(logical)
            self.probe("output_directory_cleared")
            self.log.append(ev="env", kind="cleanup", dir=top)
        elif k == "arm_fault":
            if self.mode != "fault":
                return False
            self.armed = {"site": op["site"], "errno": getattr(errno, op.get("errno", "ENOSPC")), "nbytes": op.get("nbytes", 0)}
            self.log.append(ev="env", kind="arm_fault", site=op["site"], errno=op.get("errno"), nbytes=op.get("nbytes"))
        else:
            return False
        return True

    # writes

    def reference_bytes(self, obj, is_imaging_part=None):
        """Bytes the same write produces in an empty directory under the current flip setting."""
        self.nref += 1
        d = os.path.join(self.root, "__ref__")
        os.makedirs(d, exist_ok=True)
        p = os.path.join(d, f"r{self.nref}.fits")
        target = obj if is_imaging_part is None else is_imaging_part
        try:
            target.output_to_fits(file_path=p, overwrite=False)
            with open(p, "rb") as f:
                b = f.read()
            os.remove(p)
            return b
        except Exception:
            return None

    def _one_write(self, lib_obj, expected, okind, cls_name, pixel_scales, logical, form, overwrite, step, group=None, call=None):
        """
        One library write into `logical`.  `call` (optional) performs the library call (used by imaging, where
        one call writes three files); otherwise lib_obj.output_to_fits is called here.
        -> True if the write succeeded
        """
        arg, eff_form = self.path_arg(logical, form)
        pre = self.state_kind(logical)
        pre_bytes = self.file_bytes(logical)
        exists = pre_bytes is not None
        # a zero-length file has no content to protect: astropy's writeto treats it as absent, and the statement's
        # "writing to an existing path fails" is about existing content; the model accepts either outcome there.
        empty_target = exists and len(pre_bytes) == 0
        dir_existed = os.path.isdir(os.path.dirname(self.abs_of(logical)))
        cond = {
            "route": "file",
            "flip": self.flip,
            "path_form": eff_form,
            "pre": pre if pre != "foreign" else "foreign_" + self.model[logical].get("what", ""),
            "overwrite": bool(overwrite),
            "dir_existed": dir_existed,
            "aniso": len(pixel_scales) == 2 and pixel_scales[0] != pixel_scales[1],
        }
        self.stats["state_op_pairs"].add(f"write|{okind}|{cond['pre']}|ow={int(bool(overwrite))}|{eff_form}|flip={int(self.flip)}|dir={int(dir_existed)}")
        armed = self.armed
        self.armed = None
        shim = FsShim()
        if armed:
            shim.armed, shim.err, shim.nbytes = armed["site"], armed["errno"], armed["nbytes"]
        exc = None
        with shim:
            try:
                if call is not None:
                    call()
                else:
                    lib_obj.output_to_fits(file_path=arg, overwrite=overwrite)
            except Exception as e:  # noqa: BLE001 - any exception is an outcome
                exc = e
        fired = shim.fired
        post_bytes = self.file_bytes(logical)
        self.log.append(
            ev="write",
            obj=cls_name,
            path=logical,
            form=eff_form,
            overwrite=bool(overwrite),
            pre=cond["pre"],
            fault=fired,
            outcome=("raises " + type(exc).__name__) if exc else "ok",
            post=sha(post_bytes) if post_bytes is not None else None,
        )
        if eff_form == "bare":
            self.probe("bare_name_write")
        if not dir_existed:
            self.probe("write_into_missing_directory")
        if fired:
            self.stats["faults_fired"][fired] = self.stats["faults_fired"].get(fired, 0) + 1
            cond["fault"] = fired
            self.stats["checked"] += 1
            if exc is None:
                self.report("fault_swallowed", cls_name, "output_to_fits", cond, "raises (injected file-system error)", "returned normally", step)
            if fired in ("makedirs", "remove"):
                # nothing may have been touched
                if (pre_bytes is None) != (post_bytes is None) or (pre_bytes is not None and pre_bytes != post_bytes):
                    self.report("failed_write_changed_file", cls_name, "file bytes", cond, "unchanged", "changed", step)
            else:
                self.model[logical] = {"kind": "indet"}
                self.probe("path_left_indeterminate_by_fault")
            return False
        # ---- fault-free semantics
        self.stats["checked"] += 1
        if empty_target and not overwrite and exc is None:
            self.probe("zero_length_target_treated_as_absent")
            exists = False
        if exists and not overwrite:
            self.probe("refused_overwrite")
            if exc is None:
                self.report("write_must_fail", cls_name, "output_to_fits", cond, "raises (target exists, overwrite=False)", "returned normally", step)
            if post_bytes != pre_bytes:
                self.report("refused_overwrite_changed_file", cls_name, "file bytes", cond, "unchanged " + sha(pre_bytes), "changed", step)
            return False
        if exc is not None:
            self.report("write_must_succeed", cls_name, "output_to_fits", cond, "succeeds", "raises " + type(exc).__name__ + ": " + str(exc)[:120], step)
            # known finding: the model follows reality
            if post_bytes is None:
                self.model.pop(logical, None)
            else:
                self.model[logical] = {"kind": "indet"}
            return False
        if post_bytes is None:
            self.report("wrong_location", cls_name, "file", cond, "file at " + logical, "no file there", step)
            return False
        if not dir_existed:
            self.probe("dirs_created")
        if exists:
            self.probe("overwrite_over_" + cond["pre"])
            if pre == "indet":
                self.probe("recovery_after_fault")
        ref = self.reference_bytes(lib_obj)
        if ref is not None and ref != post_bytes and fits_content(ref) != fits_content(post_bytes):
            self.report(
                "overwrite_not_replaced" if exists else "write_depends_on_state",
                cls_name,
                "file bytes",
                cond,
                f"{len(ref)} bytes sha {sha(ref)} (same write into an empty directory)",
                f"{len(post_bytes)} bytes sha {sha(post_bytes)}",
                step,
            )
        self.model[logical] = {
            "kind": "det",
            "okind": okind,
            "cls": cls_name,
            "expected": expected,
            "flip": self.flip,
            "ps": tuple(pixel_scales),
            "sha": sha(post_bytes),
            "group": group,
        }
        self.recent_write = (logical, okind)
        return True

    def do_write(self, op, step):
        obj = self.objs.get(op["obj"])
        if obj is None or obj.kind == "imaging":
            return False
        self._one_write(obj.obj, obj.expected, obj.kind, obj.cls_name, obj.pixel_scales, op["path"], op["form"], op["overwrite"], step)
        return True

    def do_imaging_write(self, op, step):
        obj = self.objs.get(op["obj"])
        if obj is None or obj.kind != "imaging" or len(set(op["paths"])) < 3:
            return False
        paths = op["paths"]
        args = [self.path_arg(p, op["form"])[0] for p in paths]
        ow = op["overwrite"]
        pre = {p: self.file_bytes(p) for p in paths}
        prek = {p: self.state_kind(p) for p in paths}
        armed = self.armed
        self.armed = None
        shim = FsShim()
        if armed:
            shim.armed, shim.err, shim.nbytes = armed["site"], armed["errno"], armed["nbytes"]
        exc = None
        with shim:
            try:
                obj.obj.output_to_fits(data_path=args[0], psf_path=args[1], noise_map_path=args[2], overwrite=ow)
            except Exception as e:  # noqa: BLE001
                exc = e
        fired = shim.fired
        post = {p: self.file_bytes(p) for p in paths}
        group = f"g{step}"
        cond = {"route": "file", "flip": self.flip, "path_form": op["form"], "overwrite": bool(ow), "pre": "/".join(prek[p] for p in paths)}
        self.log.append(
            ev="imaging_write", paths=paths, overwrite=bool(ow), fault=fired, outcome=("raises " + type(exc).__name__) if exc else "ok",
            post=[sha(post[p]) if post[p] is not None else None for p in paths],
        )
        self.stats["state_op_pairs"].add(f"imaging_write|{cond['pre']}|ow={int(bool(ow))}|flip={int(self.flip)}")
        self.stats["checked"] += 1
        if fired:
            self.stats["faults_fired"][fired] = self.stats["faults_fired"].get(fired, 0) + 1
            cond["fault"] = fired
            if exc is None:
                self.report("fault_swallowed", "Imaging", "output_to_fits", cond, "raises (injected file-system error)", "returned normally", step)
            for p in paths:
                if post[p] != pre[p]:
                    self.model[p] = {"kind": "indet"}
                elif pre[p] is None and p in self.model:
                    self.model.pop(p)
            # a path whose bytes are unchanged keeps its state; a removed one is indeterminate
            for p in paths:
                if pre[p] is not None and post[p] is None:
                    self.model[p] = {"kind": "indet"}
            return True
        parts = [("data", obj.obj.data), ("psf", obj.obj.psf), ("noise", obj.obj.noise_map)]
        must_fail_at = None
        for i, p in enumerate(paths):
            if pre[p] is not None and not ow:
                if len(pre[p]) == 0 and post[p] is not None and len(post[p]) > 0:
                    continue  # zero-length target treated as absent (see _one_write)
                must_fail_at = i
                break
        if must_fail_at is not None:
            self.probe("refused_overwrite")
            if exc is None:
                self.report("write_must_fail", "Imaging", "output_to_fits", cond, "raises (a target exists, overwrite=False)", "returned normally", step)
            if post[paths[must_fail_at]] != pre[paths[must_fail_at]]:
                self.report("refused_overwrite_changed_file", "Imaging", "file bytes", cond, "unchanged", "changed", step)
            upto = must_fail_at
        else:
            if exc is not None:
                self.report("write_must_succeed", "Imaging", "output_to_fits", cond, "succeeds", "raises " + type(exc).__name__ + ": " + str(exc)[:120], step)
                for p in paths:
                    if post[p] != pre[p]:
                        self.model[p] = {"kind": "indet"}
                return True
            upto = 3
        for i in range(upto):
            p = paths[i]
            name, part = parts[i]
            if post[p] is None:
                self.report("wrong_location", "Imaging", "file", cond, "file at " + p, "no file there", step)
                continue
            ref = self.reference_bytes(None, is_imaging_part=part)
            if ref is not None and ref != post[p] and fits_content(ref) != fits_content(post[p]):
                self.report("overwrite_not_replaced" if pre[p] is not None else "write_depends_on_state", "Imaging", "file bytes", cond, sha(ref), sha(post[p]), step)
            self.model[p] = {
                "kind": "det",
                "okind": "kernel2d" if name == "psf" else "array2d",
                "cls": "Kernel2D" if name == "psf" else "Array2D",
                "expected": np.array(part.native),
                "flip": self.flip,
                "ps": tuple(obj.pixel_scales),
                "sha": sha(post[p]),
                "group": group if upto == 3 else None,
                "role": name,
            }
        if upto == 3:
            self.groups = getattr(self, "groups", {})
            self.groups[group] = {"paths": list(paths), "obj": obj.id, "shas": [sha(post[p]) for p in paths]}
            self.probe("imaging_written")
        return True

    # reads

    def do_read(self, op, step):
        import autoarray as aa

        logical = op["path"]
        reader = op["reader"]
        arg, eff_form = self.path_arg(logical, op["form"])
        st = self.model.get(logical)
        pre = st["kind"] if st else "absent"
        is1d = reader in ("Array1D", "Mask1D")
        ps = op.get("pixel_scales", 1.0)
        if isinstance(ps, list):
            ps = tuple(ps)
        kwargs = {}
        if reader == "Mask2D":
            if op.get("invert"):
                kwargs["invert"] = True
            if op.get("resized"):
                kwargs["resized_mask_shape"] = tuple(op["resized"])
        exc = None
        res = None
        try:
            cls = getattr(aa, reader)
            if reader == "Kernel2D":
                res = cls.from_fits(file_path=arg, hdu=0, pixel_scales=ps, normalize=bool(op.get("normalize", False)))
            else:
                res = cls.from_fits(file_path=arg, hdu=0, pixel_scales=ps, **kwargs)
        except Exception as e:  # noqa: BLE001
            exc = e
        tree = compare.canon(exc if exc is not None else res)
        self.log.append(ev="read", reader=reader, path=logical, form=eff_form, pre=pre, flip=self.flip, outcome=compare.digest(tree) if exc is None else "raises " + type(exc).__name__)
        cond = {"route": "file", "flip": self.flip, "path_form": eff_form, "pre": pre}
        self.stats["state_op_pairs"].add(f"read|{reader}|{pre}|{eff_form}|flip={int(self.flip)}|{sorted(kwargs)}")
        if pre == "absent":
            self.stats["checked"] += 1
            self.probe("read_absent")
            if exc is None:
                self.report("read_must_fail", reader, "from_fits", cond, "raises (no such file)", "returned a value", step)
            return True
        if pre != "det":
            self.stats["unchecked"]["read_" + pre] = self.stats["unchecked"].get("read_" + pre, 0) + 1
            return True
        okind = st["okind"]
        src_is1d = okind in ("array1d", "mask1d")
        if src_is1d != is1d:
            self.stats["unchecked"]["dimension_mismatch"] = self.stats["unchecked"].get("dimension_mismatch", 0) + 1
            return True
        if st["flip"] != self.flip:
            self.stats["unchecked"]["flip_changed_between_write_and_read"] = self.stats["unchecked"].get("flip_changed_between_write_and_read", 0) + 1
            return True
        if reader in ("Mask2D", "Mask1D") and okind not in ("mask2d", "mask1d"):
            self.stats["unchecked"]["mask_reader_on_array_file"] = self.stats["unchecked"].get("mask_reader_on_array_file", 0) + 1
            return True
        cond["written_as"] = st["cls"]
        cond["aniso"] = len(st["ps"]) == 2 and st["ps"][0] != st["ps"][1]
        self.stats["checked"] += 1
        if self.flip:
            self.probe("flip_true_file_roundtrip")
        if exc is not None:
            self.report("read_must_succeed", reader, "from_fits", cond, "returns the written values", "raises " + type(exc).__name__ + ": " + str(exc)[:120], step)
            return True
        expected = st["expected"]
        if reader == "Mask2D":
            exp = expected.astype(bool)
            if kwargs.get("invert"):
                exp = ~exp
            if kwargs.get("resized_mask_shape"):
                mem = aa.Mask2D(mask=exp.copy(), pixel_scales=ps).resized_from(new_shape=kwargs["resized_mask_shape"])
                exp = np.array(mem)
                self.probe("mask_read_resized")
            got = np.array(res)
            self._cmp_values(reader, "mask booleans", cond, exp, got, step, bool_kind=True)
        elif reader == "Mask1D":
            self._cmp_values(reader, "mask booleans", cond, expected.astype(bool), np.array(res), step, bool_kind=True)
        elif reader == "Kernel2D" and op.get("normalize"):
            got = np.array(res.native)
            total = float(np.sum(expected))
            self.probe("kernel_read_normalized")
            if got.shape != expected.shape:
                self.report("read_mismatch", reader, "shape", cond, repr(expected.shape), repr(got.shape), step)
            elif total != 0.0 and np.all(np.isfinite(expected / total)) and not np.allclose(got, expected / total, rtol=1e-12, atol=0.0):
                self.report("read_mismatch", reader, "normalized values", cond, repr((expected / total).tolist())[:200], repr(got.tolist())[:200], step)
        else:
            got = np.array(res.native)
            self._cmp_values(reader, "native values", cond, expected, got, step)
            if getattr(res, "mask", None) is not None and np.array(res.mask).any():
                self.report("read_mismatch", reader, "mask", cond, "unmasked", "masked entries", step)
        # pixel scales as supplied by the caller come back on the object
        want_ps = (float(ps),) * (1 if is1d else 2) if not isinstance(ps, tuple) else tuple(float(x) for x in ps)
        if tuple(float(x) for x in res.pixel_scales) != want_ps:
            self.report("read_mismatch", reader, "pixel_scales", cond, repr(want_ps), repr(tuple(res.pixel_scales)), step)
        if expected.ndim == 2 and (expected.shape[0] == 1 or expected.shape[1] == 1):
            self.probe("roundtrip_1xN_or_Nx1")
        if expected.ndim == 2 and expected.shape[0] != expected.shape[1]:
            self.probe("roundtrip_non_square")
        # "via the header, the same pixel scale": the header that from_fits attaches to the object it returns
        hdr = getattr(getattr(res, "header", None), "header_sci_obj", None)
        if hdr is not None and st["cls"] in ("Array2D", "Kernel2D", "Array1D", "Mask2D", "Mask1D"):
            self.stats["checked"] += 1
            try:
                # behavioural, not by key name: the library's own header reader (from_primary_hdu) applied to the header the
                # returned object carries - a consistent rename of the header card by a maintainer is not a violation
                from astropy.io import fits as _fits

                data_for_hdr = np.zeros(tuple(int(hdr[f"NAXIS{i}"]) for i in range(int(hdr["NAXIS"]), 0, -1)))
                back = getattr(aa, st["cls"]).from_primary_hdu(primary_hdu=_fits.PrimaryHDU(data_for_hdr, header=hdr.copy()))
                hps = tuple(float(x) for x in back.pixel_scales)
                hshape = tuple(data_for_hdr.shape)
            except Exception as e:  # noqa: BLE001
                hps, hshape = "unreadable: " + type(e).__name__ + " " + str(e)[:60], None
            hc = dict(cond, route="file.header")
            if hps != tuple(st["ps"]):
                self.report("pixel_scale_header_mismatch", reader, "header pixel scale", hc, repr(tuple(st["ps"])), repr(hps), step)
            if hshape is not None and hshape != tuple(expected.shape):
                self.report("read_mismatch", reader, "header shape", hc, repr(tuple(expected.shape)), repr(hshape), step)
        # "via the header, the same pixel scale": the stored file's primary HDU through the HDU route
        if st["cls"] == reader or (reader == "Array2D" and st["cls"] in ("Kernel2D",)):
            self._header_scale_check(reader, arg, st, cond, step)
        return True

    def _header_scale_check(self, reader, arg, st, cond, step):
        import autoarray as aa
        from astropy.io import fits

        cond = dict(cond)
        cond["route"] = "file+hdu"
        try:
            with fits.open(arg) as hl:
                back = getattr(aa, reader).from_primary_hdu(primary_hdu=hl[0])
                got_ps = tuple(float(x) for x in back.pixel_scales)
                got_vals = np.array(back if reader in ("Mask2D", "Mask1D") else back.native, dtype=np.float64)
        except Exception as e:  # noqa: BLE001
            self.report("hdu_roundtrip_mismatch", reader, "from_primary_hdu", cond, "returns", "raises " + type(e).__name__ + ": " + str(e)[:100], step)
            return
        self.stats["checked"] += 1
        if got_ps != tuple(st["ps"]):
            self.report("pixel_scale_header_mismatch", reader, "pixel_scales", cond, repr(tuple(st["ps"])), repr(got_ps), step)
        if st["okind"] not in ("array1d", "mask1d"):
            self._cmp_values(reader, "native values", cond, st["expected"], got_vals, step, kind="hdu_roundtrip_mismatch")

    def _cmp_values(self, target, quantity, cond, exp, got, step, bool_kind=False, kind="read_mismatch"):
        exp = np.asarray(exp)
        got = np.asarray(got)
        if exp.shape != got.shape:
            self.report(kind, target, "shape", cond, repr(exp.shape), repr(got.shape), step)
            return
        if bool_kind:
            if got.dtype.kind != "b" or not np.array_equal(exp, got):
                self.report(kind, target, quantity, cond, repr(exp.astype(int).tolist()), repr(got.astype(int).tolist()) + " dtype " + str(got.dtype), step)
            return
        if got.dtype.kind != "f":
            self.report(kind, target, "dtype", cond, "float", str(got.dtype), step)
            return
        if compare.canon_ndarray(exp.astype(np.float64)) != compare.canon_ndarray(got.astype(np.float64)):
            self.report(kind, target, quantity, cond, compare.describe(compare.canon_ndarray(exp)), compare.describe(compare.canon_ndarray(got)), step)

    def do_imaging_read(self, op, step):
        import autoarray as aa

        g = getattr(self, "groups", {}).get(op.get("group"))
        if g is None:
            return False
        paths = g["paths"]
        obj = self.objs[g["obj"]]
        intact = all(
            self.model.get(p, {}).get("kind") == "det" and self.model[p].get("sha") == s and self.model[p]["flip"] == self.flip
            for p, s in zip(paths, g["shas"])
        )
        args = [self.path_arg(p, op["form"])[0] for p in paths]
        exc = None
        res = None
        try:
            res = aa.Imaging.from_fits(pixel_scales=obj.pixel_scales, data_path=args[0], psf_path=args[1], noise_map_path=args[2])
        except Exception as e:  # noqa: BLE001
            exc = e
        self.log.append(ev="imaging_read", paths=paths, intact=intact, outcome="ok" if exc is None else "raises " + type(exc).__name__)
        cond = {"route": "file", "flip": self.flip, "path_form": op["form"]}
        if not intact:
            self.stats["unchecked"]["imaging_group_not_intact"] = self.stats["unchecked"].get("imaging_group_not_intact", 0) + 1
            return True
        self.stats["checked"] += 1
        self.probe("imaging_roundtrip")
        if exc is not None:
            self.report("read_must_succeed", "Imaging", "from_fits", cond, "returns the written dataset", "raises " + type(exc).__name__ + ": " + str(exc)[:120], step)
            return True
        self._cmp_values("Imaging", "data", cond, obj.parts["data"], np.array(res.data.native), step)
        self._cmp_values("Imaging", "noise_map", cond, obj.parts["noise"], np.array(res.noise_map.native), step)
        psf = np.array(res.psf.native)
        exp = obj.parts["psf"]
        if psf.shape != exp.shape or not np.allclose(psf, exp, rtol=1e-12, atol=0.0):
            self.report("read_mismatch", "Imaging", "psf", cond, repr(exp.tolist()), repr(psf.tolist()), step)
        return True

    # HDU routes

    def _reader_for(self, obj):
        import autoarray as aa

        return getattr(aa, obj.cls_name)

    def _check_back(self, obj, back, cond, step, kind="hdu_roundtrip_mismatch"):
        cls = obj.cls_name
        self.stats["checked"] += 1
        if self.flip:
            self.probe("flip_true_hdu_roundtrip")
        if obj.aniso:
            self.probe("anisotropic_hdu_roundtrip")
        if cls in ("Mask2D", "Mask1D"):
            self._cmp_values(cls, "mask booleans", cond, obj.expected.astype(bool), np.array(back), step, bool_kind=True, kind=kind)
        else:
            self._cmp_values(cls, "native values", cond, obj.expected, np.array(back.native), step, kind=kind)
        got_ps = tuple(float(x) for x in back.pixel_scales)
        if got_ps != tuple(obj.pixel_scales):
            self.report("pixel_scale_header_mismatch", cls, "pixel_scales", cond, repr(tuple(obj.pixel_scales)), repr(got_ps), step)

    def do_hdu_rt(self, op, step):
        obj = self.objs.get(op["obj"])
        if obj is None or obj.kind == "imaging":
            return False
        cond = {"route": "hdu", "flip": self.flip, "aniso": obj.aniso}
        self.stats["state_op_pairs"].add(f"hdu_rt|{obj.kind}|flip={int(self.flip)}|aniso={int(obj.aniso)}")
        try:
            hdu = obj.obj.hdu_for_output
            back = self._reader_for(obj).from_primary_hdu(primary_hdu=hdu)
        except Exception as e:  # noqa: BLE001
            self.log.append(ev="hdu_rt", obj=obj.cls_name, outcome="raises " + type(e).__name__)
            self.stats["checked"] += 1
            self.report("hdu_roundtrip_mismatch", obj.cls_name, "from_primary_hdu(hdu_for_output)", cond, "returns the object's values", "raises " + type(e).__name__ + ": " + str(e)[:120], step)
            return True
        self.log.append(ev="hdu_rt", obj=obj.cls_name, flip=self.flip, outcome=compare.digest(compare.canon(back)))
        self._check_back(obj, back, cond, step)
        return True

    def do_hdu_file(self, op, step):
        from astropy.io import fits

        obj = self.objs.get(op["obj"])
        if obj is None or obj.kind == "imaging":
            return False
        cond = {"route": "hdu_via_file", "flip": self.flip, "aniso": obj.aniso}
        self.stats["state_op_pairs"].add(f"hdu_file|{obj.kind}|flip={int(self.flip)}|aniso={int(obj.aniso)}")
        d = os.path.join(self.root, "__harness__")
        os.makedirs(d, exist_ok=True)
        p = os.path.join(d, f"h{step}.fits")
        try:
            fits.HDUList([obj.obj.hdu_for_output]).writeto(p, overwrite=True)
            with fits.open(p) as hl:
                back = self._reader_for(obj).from_primary_hdu(primary_hdu=hl[0])
                back_tree = compare.canon(back)
                self._check_back(obj, back, cond, step)
        except StopRun:
            raise
        except Exception as e:  # noqa: BLE001
            self.log.append(ev="hdu_file", obj=obj.cls_name, outcome="raises " + type(e).__name__)
            self.stats["checked"] += 1
            self.report("hdu_roundtrip_mismatch", obj.cls_name, "from_primary_hdu(fits.open(file)[0])", cond, "returns the object's values", "raises " + type(e).__name__ + ": " + str(e)[:120], step)
            return True
        self.log.append(ev="hdu_file", obj=obj.cls_name, flip=self.flip, outcome=compare.digest(back_tree))
        return True

    def do_imaging_one_file(self, op, step):
        """The three arrays of an imaging dataset as extensions of ONE file (assembled by the harness from the library's own
        HDUs, in a seeded order), read back with Imaging.from_fits(data_hdu=i, noise_map_hdu=j, psf_hdu=k)."""
        import autoarray as aa
        from astropy.io import fits

        obj = self.objs.get(op["obj"])
        if obj is None or obj.kind != "imaging":
            return False
        d = os.path.join(self.root, "__harness__")
        os.makedirs(d, exist_ok=True)
        p = os.path.join(d, f"i{step}.fits")
        parts = [obj.obj.data, obj.obj.noise_map, obj.obj.psf]
        order = op.get("order", [0, 1, 2])
        hdus = []
        for pos, which in enumerate(order):
            h = parts[which].hdu_for_output
            hdus.append(fits.PrimaryHDU(h.data, header=h.header) if pos == 0 else fits.ImageHDU(h.data, header=h.header))
        fits.HDUList(hdus).writeto(p, overwrite=True)
        where = {which: pos for pos, which in enumerate(order)}
        cond = {"route": "file", "flip": self.flip, "hdus": order}
        self.stats["state_op_pairs"].add(f"imaging_one_file|{order}|flip={int(self.flip)}")
        self.probe("imaging_one_file")
        self.stats["checked"] += 1
        try:
            res = aa.Imaging.from_fits(pixel_scales=obj.pixel_scales, data_path=p, data_hdu=where[0], noise_map_path=p, noise_map_hdu=where[1], psf_path=p, psf_hdu=where[2])
        except Exception as e:  # noqa: BLE001
            self.log.append(ev="imaging_one_file", order=order, outcome="raises " + type(e).__name__)
            self.report("read_must_succeed", "Imaging", "from_fits(hdu=k)", cond, "returns the dataset", "raises " + type(e).__name__ + ": " + str(e)[:120], step)
            return True
        self.log.append(ev="imaging_one_file", order=order, flip=self.flip, outcome=compare.digest(compare.canon(res)))
        self._cmp_values("Imaging", "data", cond, obj.parts["data"], np.array(res.data.native), step)
        self._cmp_values("Imaging", "noise_map", cond, obj.parts["noise"], np.array(res.noise_map.native), step)
        psf = np.array(res.psf.native)
        if psf.shape != obj.parts["psf"].shape or not np.allclose(psf, obj.parts["psf"], rtol=1e-12, atol=0.0):
            self.report("read_mismatch", "Imaging", "psf", cond, repr(obj.parts["psf"].tolist()), repr(psf.tolist()), step)
        return True

    def do_multi_hdu(self, op, step):
        """A multi-extension file assembled by the harness from library-produced HDUs; each extension reads back its own array."""
        import autoarray as aa
        from astropy.io import fits

        objs = [self.objs.get(i) for i in op["objs"]]
        if any(o is None or o.kind == "imaging" for o in objs) or len({o.is2d for o in objs}) != 1:
            return False
        d = os.path.join(self.root, "__harness__")
        os.makedirs(d, exist_ok=True)
        p = os.path.join(d, f"m{step}.fits")
        hdus = []
        for i, o in enumerate(objs):
            h = o.obj.hdu_for_output
            hdus.append(fits.PrimaryHDU(h.data, header=h.header) if i == 0 else fits.ImageHDU(h.data, header=h.header))
        fits.HDUList(hdus).writeto(p, overwrite=True)
        self.probe("multi_hdu")
        self.stats["state_op_pairs"].add(f"multi_hdu|{len(objs)}|flip={int(self.flip)}")
        outs = []
        for i, o in enumerate(objs):
            cond = {"route": "file", "flip": self.flip, "hdu": i, "n_hdus": len(objs)}
            reader = o.cls_name
            # the HDU route flips 1D data with the 2D helper on the pinned tree; the file route of 1D data never
            # flips, so a harness-assembled file is only a valid test of the *file reader* for 2D kinds, and for 1D
            # kinds when the flip is off.
            if not o.is2d and self.flip:
                self.stats["unchecked"]["multi_hdu_1d_under_flip"] = self.stats["unchecked"].get("multi_hdu_1d_under_flip", 0) + 1
                continue
            try:
                cls = getattr(aa, reader)
                if reader == "Kernel2D":
                    back = cls.from_fits(file_path=p, hdu=i, pixel_scales=o.pixel_scales, normalize=False)
                else:
                    back = cls.from_fits(file_path=p, hdu=i, pixel_scales=o.pixel_scales if o.is2d else o.pixel_scales[0])
            except Exception as e:  # noqa: BLE001
                self.stats["checked"] += 1
                self.report("read_must_succeed", reader, "from_fits(hdu=k)", cond, "returns extension k", "raises " + type(e).__name__ + ": " + str(e)[:120], step)
                outs.append("raises " + type(e).__name__)
                continue
            self.stats["checked"] += 1
            outs.append(compare.digest(compare.canon(back)))
            if reader in ("Mask2D", "Mask1D"):
                self._cmp_values(reader, "mask booleans", cond, o.expected.astype(bool), np.array(back), step, bool_kind=True)
            else:
                self._cmp_values(reader, "native values", cond, o.expected, np.array(back.native), step)
        self.log.append(ev="multi_hdu", objs=[o.cls_name for o in objs], flip=self.flip, outcome=outs)
        return True


# ---------------------------------------------------------------------------------------------------


def execute(run_seed, case, cfg, known):
    return FitsSim(run_seed, case, cfg, known).run()


def simplifications(case):
    """Candidates tried after ddmin: drop unreferenced recipe nodes, drop knobs that no longer matter."""
    import copy

    used = set()
    for op in case["schedule"]:
        if "obj" in op:
            used.add(op["obj"])
        for o in op.get("objs", []):
            used.add(o)
    pruned = [n for n in case["recipe"] if n["id"] in used]
    if len(pruned) < len(case["recipe"]) and pruned:
        c = copy.deepcopy(case)
        c["recipe"] = pruned
        yield c
    if case["knobs"].get("flip0"):
        c = copy.deepcopy(case)
        c["knobs"]["flip0"] = False
        yield c
    for i, op in enumerate(case["schedule"]):
        if op.get("form") in ("Path", "rel"):
            c = copy.deepcopy(case)
            c["schedule"][i]["form"] = "abs"
            yield c


RULE = (
    "one case = one seeded run: a recipe of 3-6 library objects (Array2D masked/unmasked, Mask2D, Kernel2D, Array1D, Mask1D, Imaging; "
    "shapes 1xN/Nx1/non-square, values with sign and magnitudes 1e-300..1e300, isotropic and anisotropic pixel scales) and a schedule of "
    "15-50 operations issued by 2-4 interleaved clients (output_to_fits / from_fits / hdu_for_output -> from_primary_hdu / multi-HDU files / "
    "Imaging output+input) over 2-5 contended logical paths, with environment events (flip_for_ds9 toggles, chdir, pre-existing targets, cleared output directories, and in "
    "the fault mode one-shot os.makedirs/os.remove/writeto errors and torn writes). Every operation is checked against the path->content model. "
    "A case is non-trivial when >= 2 clients interleaved or >= 1 fault fired AND >= 5 operations were checked against the model; distinct = distinct "
    "SHA-1 of (object kinds+shapes, full operation/environment sequence with targets, forms and overwrite flags)."
)
STATE_MEASURE = "distinct (operation, object kind, model state of the target path before the operation, overwrite flag, path form, flip setting, directory existed) tuples reached"
EXPECTED_PROBES = [
    "bare_name_write", "write_into_missing_directory", "dirs_created", "refused_overwrite", "overwrite_over_det", "overwrite_over_foreign_garbage",
    "overwrite_over_foreign_torn", "read_absent", "flip_true_file_roundtrip", "flip_true_hdu_roundtrip", "anisotropic_hdu_roundtrip",
    "roundtrip_1xN_or_Nx1", "roundtrip_non_square", "multi_hdu", "imaging_roundtrip", "mask_read_resized", "recovery_after_fault",
    "path_left_indeterminate_by_fault", "zero_length_target_treated_as_absent", "output_directory_cleared",
]
STUBS = []
ASSUMPTIONS = [
    "the file system is a real tmpfs directory driven by one thread; faults are injected only at the call sites the library uses today (os.makedirs/os.remove in array_2d_util/array_1d_util, PrimaryHDU.writeto) - a refactor that bypasses them makes the fault not fire (counted, never an alarm)",
    "a read of a file written under the other flip_for_ds9 value is executed but not checked (the statement promises undoing the flip under one setting)",
    "a zero-length pre-existing file is accepted as either 'existing' or 'absent' for overwrite=False (astropy treats it as absent; there is no content to protect)",
    "pixel scales are drawn from values that survive astropy's 16-significant-digit header formatting",
    "Imaging.from_fits re-normalises the PSF, so the psf is compared to 1e-12 relative to the normalised kernel; data and noise map exactly",
    "sampling, not enumeration: a clean batch is evidence, not proof",
]

TIERS = {
    "quick": {"batches": [("nofault", 5000), ("fault", 2500)], "wall_cap": 75.0},
    "thorough": {"batches": [("nofault", 120000), ("fault", 60000)], "wall_cap": 600.0},
}
