"""
One integer decides everything.

run_seed(batch_seed, system, i) -> 64-bit integer; streams(run_seed) -> independent random.Random
objects derived *by name*, so shrinking the schedule never perturbs the world and vice versa.
Only Python's Mersenne Twister is used for simulator decisions; numpy.random is reserved for the
system under test (it is seam S6).
"""
import hashlib
import random

STREAM_NAMES = ("world", "values", "schedule", "faults")


def _h(text: str) -> int:
    return int(hashlib.sha256(text.encode()).hexdigest()[:16], 16)


def run_seed(batch_seed: int, system: str, index: int) -> int:
    return _h(f"{int(batch_seed)}:{system}:{int(index)}")


def stream(seed: int, name: str) -> random.Random:
    return random.Random(_h(f"{int(seed)}/{name}"))


def streams(seed: int) -> dict:
    return {name: stream(seed, name) for name in STREAM_NAMES}


def fhex(x: float) -> str:
    return float(x).hex()


def unhex(s):
    if isinstance(s, str):
        return float.fromhex(s)
    return float(s)
