"""
Minimisation of a failing case (DESIGN 3.8): ddmin over the schedule, then recipe pruning, then a
one-at-a-time pass and system-specific simplifications - a candidate is kept only if the SAME violation class
recurs.  Every candidate executes in an isolated child, exactly like an ordinary run.
"""
import copy

from .findings import violation_class


def shrink(case, target_class, execute, system, max_exec=300):
    """
    execute(case) -> result dict (status/violation).  Returns (smallest case found, its result, n_exec).
    """
    budget = [max_exec]
    best = {"case": case, "result": None}

    def fails(cand):
        if budget[0] <= 0:
            return False
        budget[0] -= 1
        res = execute(cand)
        if res is None or res.get("status") != "violation":
            return False
        if violation_class(res["violation"]) != target_class:
            return False
        best["case"], best["result"] = res.get("case", cand), res
        return True

    def with_schedule(base, sched):
        c = copy.deepcopy(base)
        c["schedule"] = sched
        return c

    # make sure it fails at all when replayed from its recorded schedule
    if not fails(case):
        return None, None, max_exec - budget[0]
    cur = best["case"]

    # cut everything after the violating step
    vseq = best["result"]["violation"].get("step")
    if isinstance(vseq, int) and vseq + 1 < len(cur["schedule"]):
        cand = with_schedule(cur, cur["schedule"][: vseq + 1])
        if fails(cand):
            cur = best["case"]

    # ddmin
    sched = list(cur["schedule"])
    n = 2
    while len(sched) >= 2 and budget[0] > 0:
        chunk = max(1, len(sched) // n)
        subsets = [sched[i : i + chunk] for i in range(0, len(sched), chunk)]
        reduced = False
        for i in range(len(subsets)):
            complement = [op for j, s in enumerate(subsets) if j != i for op in s]
            if complement and fails(with_schedule(cur, complement)):
                cur = best["case"]
                sched = list(cur["schedule"])
                n = max(n - 1, 2)
                reduced = True
                break
        if not reduced:
            if n >= len(sched):
                break
            n = min(len(sched), n * 2)

    # one-at-a-time removal (catches what ddmin's granularity missed)
    i = 0
    sched = list(cur["schedule"])
    while i < len(sched) and len(sched) > 1 and budget[0] > 0:
        cand = sched[:i] + sched[i + 1 :]
        if fails(with_schedule(cur, cand)):
            cur = best["case"]
            sched = list(cur["schedule"])
        else:
            i += 1

    # system-specific simplifications (drop unreferenced recipe nodes, cheaper ops, fewer knobs ...)
    simplify = getattr(system, "simplifications", None)
    if simplify is not None:
        progress = True
        while progress and budget[0] > 0:
            progress = False
            for cand in simplify(cur):
                if budget[0] <= 0:
                    break
                if fails(cand):
                    cur = best["case"]
                    progress = True
                    break

    return best["case"], best["result"], max_exec - budget[0]
