#!/venv/bin/python
"""Run the repository's pinned suite on a tree (default /repo) and compare with BASELINE.json's stable_pass set."""
import json, subprocess, sys, tempfile, os, xml.etree.ElementTree as ET
repo = sys.argv[1] if len(sys.argv) > 1 else "/repo"
base = json.load(open("/root/.vp/BASELINE.json"))
with tempfile.TemporaryDirectory() as d:
    x = os.path.join(d, "j.xml")
    subprocess.run(["/venv/bin/python", "-m", "pytest", "-ra", "-q", "-p", "no:cacheprovider", "--timeout=900", "--continue-on-collection-errors", f"--junitxml={x}"], cwd=repo, capture_output=True)
    passed = set()
    for tc in ET.parse(x).getroot().iter("testcase"):
        if not any(c.tag in ("failure", "error", "skipped") for c in tc):
            passed.add(f"{tc.get('classname')}::{tc.get('name')}")
if os.path.isdir(os.path.join(repo, ".git")) or os.path.isfile(os.path.join(repo, ".git")):
    # the suite rewrites a few tracked output files under test_autoarray/ - never let them leak into a commit
    subprocess.run(["git", "-C", repo, "checkout", "--", "test_autoarray"], capture_output=True)
want = set(base["stable_pass"])
missing = sorted(want - passed)
print(f"stable_pass expected={len(want)} passing_now={len(want & passed)} missing={len(missing)} extra_passing={len(passed - want)}")
for m in missing[:20]:
    print("  MISSING", m)
sys.exit(1 if missing else 0)
