"""
System `purity` (property C11): queries are pure, order-independent and deterministic.

Cooperative clients (readers, derivers, constructors) drive the public API against ONE shared object graph; the
seeded scheduler interleaves them at the granularity of one property read / one method call and inserts
environment events (cache eviction, global-RNG perturbation, solver failure).  Oracles (DESIGN section 4):

  I1  caller-owned raw arrays and the contents of every node are unchanged               after every event
  I2  every read equals the same read on a pristine twin in the isolated reference executor    every read
  I3  cached quantities of value types equal those of an object rebuilt from the contents     reads on derived nodes
  I4  a sampled reference read repeated on a second twin is bit-identical
  I5  seeded simulation / noise equals the reference executor's result (different global RNG state)
  I6  module-level default instances and configuration are unchanged                          after every event
"""
import hashlib
import json
import os

import numpy as np

from sim.core import boot, compare, eventlog, findings, prng, refexec, seams
from sim.worlds import build, catalog, gen

NAME = "purity"
PROPERTY = "C11"

ALL_TEMPLATES = ["structures", "dataset", "inversion", "simulator", "vis_interface", "triangles", "image_mesh", "interferometer", "layout"]
CONF_KNOBS = {
    "positive_only_uses_p_initial": [True, False],
    "use_positive_only_solver": [True, False],
    "no_regularization_add_to_curvature_diag_value": [1.0e-3, 1.0e-8],
    "check_reconstruction": [True, False],
}
VALUE_TYPES = ("Visibilities", "VisibilitiesNoiseMap", "Grid2D", "Array2D", "Kernel2D", "VectorYX2D", "Array1D", "Mask2D", "Grid2DIrregular", "ArrayIrregular")


_INV_SOLVER = ["reconstruction", "log_det_curvature_reg_matrix_term", "log_det_regularization_matrix_term", "regularization_term", "mapped_reconstructed_data",
               "reconstruction_noise_map", "mapped_reconstructed_image", "reconstruction_reduced"]
SOLVER_READS = {
    "InversionInterferometerMapping": _INV_SOLVER,
    "InversionImagingMapping": _INV_SOLVER,
    "InversionImagingWTilde": _INV_SOLVER,
    "FitStub": ["log_evidence", "figure_of_merit", "chi_squared", "log_likelihood_with_regularization"],
    "MapperRectangular": ["regularization_matrix"],
    "MapperDelaunay": ["regularization_matrix"],
}


class StopRun(Exception):
    pass


_helper_acc = {}


def helper_accessors():
    """accessor property name -> class of the helper it returns (2D variants; the introspected names of a class that does not
    match the object simply raise AttributeError on both sides of the wall)"""
    if not _helper_acc:
        import autoarray as aa

        _helper_acc.update({"derive_mask": aa.DeriveMask2D, "derive_indexes": aa.DeriveIndexes2D, "derive_grid": aa.DeriveGrid2D, "geometry": aa.Geometry2D})
    return _helper_acc


def content_tree(obj):
    """What an object IS (not what it has cached): array + mask for structures, public non-cached attributes otherwise."""
    if hasattr(obj, "_array") and hasattr(type(obj), "with_new_array"):
        return {"<value>": compare.fast_fp(obj)}
    d = getattr(obj, "__dict__", None)
    if not d:
        return {}
    skip = set(catalog.cached_names(type(obj))) | {"run_time_dict"}
    out = {}
    for k in sorted(d):
        if k in skip or k.startswith("__"):
            continue
        if k.startswith("_") and k not in ("_use_positive_only_solver", "_positive_only_uses_p_initial", "_use_border_relocator", "_no_regularization_add_to_curvature_diag_value"):
            continue
        out[k] = _attr_digest(d[k], 2)
    return out


def _attr_digest(v, depth):
    """digest of an attribute value; plain library objects (settings, over-sampling schemes ...) are opened `depth` levels deep,
    skipping their cached entries, so that an in-place change of a nested scheme is seen"""
    if depth > 0 and catalog.is_library_object(v) and hasattr(v, "__dict__") and not hasattr(v, "_array"):
        skip = set(catalog.cached_names(type(v))) | {"run_time_dict"}
        items = tuple((k, _attr_digest(x, depth - 1)) for k, x in sorted(v.__dict__.items()) if k not in skip and not k.startswith("__"))
        return ("state", type(v).__name__, items)
    if isinstance(v, (list, tuple)) and len(v) <= 8 and depth > 0 and any(catalog.is_library_object(x) for x in v):
        return ("seq", tuple(_attr_digest(x, depth - 1) for x in v))
    return compare.fast_fp(v)


def rebuild_from_contents(obj):
    """Invariant I3: the same value rebuilt through the public constructor from the object's own contents."""
    import autoarray as aa

    tn = type(obj).__name__
    arr = np.array(obj._array, copy=True)
    if tn in ("Visibilities", "VisibilitiesNoiseMap"):
        return type(obj)(visibilities=arr)
    if tn == "Grid2D":
        return aa.Grid2D(values=arr, mask=obj.mask, over_sampling=getattr(obj, "over_sampling", None), over_sampling_non_uniform=getattr(obj, "over_sampling_non_uniform", None), store_native=obj.store_native)
    if tn == "Array2D":
        return aa.Array2D(values=arr, mask=obj.mask, store_native=obj.store_native, header=getattr(obj, "header", None))
    if tn == "Mask2D":
        return aa.Mask2D(mask=arr, pixel_scales=obj.pixel_scales, origin=obj.origin)
    if tn == "Grid2DIrregular":
        return aa.Grid2DIrregular(values=arr)
    return None


class PuritySim:
    def __init__(self, run_seed, case, cfg, known):
        self.run_seed = run_seed
        self.cfg = cfg
        self.known = known or []
        self.replaying = case is not None
        self.mode = (case or {}).get("mode") or cfg.get("mode") or "nofault"
        self.streams = prng.streams(run_seed)
        self.log = eventlog.EventLog(run_seed, NAME)
        self.known_hits = []
        self.violation = None
        if case is not None:
            self.knobs = case["knobs"]
            self.recipe = case["recipe"]
            self.in_schedule = list(case["schedule"])
        else:
            self.knobs = self.gen_knobs()
            self.recipe = self._gen_world()
            self.in_schedule = None
        self.schedule = []
        self.stats = {
            "ops": 0, "env": 0, "faults_fired": {}, "checked": 0, "reference_reads": 0, "unchecked": {}, "probes": {},
            "cache_states": set(), "order_pairs": set(), "clients": set(), "build_skips": 0, "nonexc_checked": 0, "i3_checked": 0,
        }
        self.memo = {}
        self.content0 = {}
        self.last_read = {}
        self.armed_solver = None
        self.recovering = set()
        self.hot = []  # reader-after-writer queue: node ids that were just passed to a call / constructor
        self.step = 0
        self.node_counter = 0
        self.derived_from = {}
        self.quiescent = set()
        self.read_history = {}
        self.cache_fp = {}
        self.sub_content = {}
        self.fresh_fills = []
        self.tainted = set()

    # -- knobs ------------------------------------------------------------------------------------

    def _gen_world(self):
        return gen.gen_purity_world(self.streams["world"], self.streams["values"], self.knobs)

    def gen_knobs(self):
        r = self.streams["world"]
        t = [x for x in ALL_TEMPLATES if r.random() < {"structures": 0.6, "dataset": 0.6, "inversion": 0.55, "simulator": 0.25, "vis_interface": 0.15, "triangles": 0.15, "image_mesh": 0.2, "interferometer": 0.25, "layout": 0.12}[x]]
        if not t:
            t = [r.choice(["structures", "inversion", "dataset"])]
        for extra in self.cfg.get("force_templates", []):
            if extra not in t:
                t.append(extra)
        fault = self.mode == "fault"
        return {
            "templates": t,
            "n_ops": r.randrange(20, 60),
            "n_clients": r.randrange(2, 6),
            "p_evict": r.choice([0.03, 0.08, 0.15]) if fault else 0.0,
            "p_rng": r.choice([0.02, 0.06]) if fault else 0.0,
            "p_solver": r.choice([0.0, 0.04, 0.1]) if fault else 0.0,
            "profile_on": fault and r.random() < 0.4,
            "profile_repeats": r.choice([1, 2, 2, 3]),  # general.profiling.repeats: every profiled function body runs that many times
            "conf": {k: r.choice(v) for k, v in CONF_KNOBS.items() if r.random() < 0.5},
            "p_uniform": 0.3,
        }

    # -- helpers ----------------------------------------------------------------------------------

    def probe(self, name, n=1):
        self.stats["probes"][name] = self.stats["probes"].get(name, 0) + n

    def uncheck(self, why):
        self.stats["unchecked"][why] = self.stats["unchecked"].get(why, 0) + 1

    def report(self, kind, target_type, quantity, condition, expected, got):
        v = {"property": PROPERTY, "kind": kind, "target_type": target_type, "quantity": quantity, "condition": condition,
             "expected": expected, "got": got, "step": len(self.schedule) - 1}
        hit = findings.match(v, self.known, PROPERTY)
        if hit is not None:
            v["finding_id"] = hit.get("id")
            self.known_hits.append(v)
            return False
        self.violation = v
        raise StopRun()

    def is_tainted(self, nid, _seen=None):
        """A node (or anything it was built from) holds a value the library computed through a fallback path because an
        injected solver error was absorbed instead of raised: a legitimately different evaluation, so not compared."""
        if nid in self.tainted:
            return True
        _seen = _seen or set()
        if nid in _seen:
            return False
        _seen.add(nid)
        return any(self.is_tainted(d, _seen) for d in self.world.passed.get(nid, []))

    def is_quiescent(self, nid, _seen=None):
        """A node whose arrays were harvested BY REFERENCE into a Preloads object (through {"$attr": ...} slots or through
        Preloads.set_*), or anything built on it.  Preloads aliases its source's arrays by design of that API and a later read
        of the source may write into them (single-regularization fast path): the statement does not list Preloads among the
        derivations it protects (DESIGN 4.1 / 5.5), so the source is left alone after harvesting, exactly as in system `preloads`."""
        if nid in self.quiescent:
            return True
        _seen = _seen or set()
        if nid in _seen:
            return False
        _seen.add(nid)
        return any(self.is_quiescent(d, _seen) for d in self.world.passed.get(nid, []))

    def nodes_by_type(self):
        out = {}
        for nid in self.world.order:
            if nid in self.world.env:
                out.setdefault(type(self.world.env[nid]).__name__, []).append(nid)
        return out

    def new_node_id(self, prefix="x"):
        self.node_counter += 1
        return f"{prefix}{self.node_counter}_{len(self.schedule)}"

    # -- the run ----------------------------------------------------------------------------------

    def run(self):
        boot.boot(pylops_standin=True)
        for k, v in self.knobs.get("conf", {}).items():
            boot.set_conf(["general", "inversion", k], v)
        self.clock = seams.install_clock() if self.knobs.get("profile_on") else None
        if self.knobs.get("profile_on"):
            boot.set_conf(["general", "profiling", "repeats"], int(self.knobs.get("profile_repeats", 1)))
        np.random.seed(self.run_seed % (2**32))
        self.ref = refexec.InprocReference() if self.cfg.get("oracle") == "inproc" else refexec.ForkReference()
        self.world = build.World()
        self.globals0 = seams.globals_fingerprint()
        status = "ok"
        try:
            try:
                for spec in self.recipe:
                    self.add_node(spec, initial=True)
                self.after_event("initial construction")
                if self.replaying:
                    for op in self.in_schedule:
                        self.apply(op)
                else:
                    self.generate_and_run()
            except StopRun:
                status = "violation"
        finally:
            self.ref.close()
        return self.result(status)

    def result(self, status):
        st = self.stats
        sig = hashlib.sha1(json.dumps([[s["kind"] for s in self.recipe], [self.op_shape(o) for o in self.schedule]], sort_keys=True).encode()).hexdigest()[:16]
        fired = sum(st["faults_fired"].values())
        nontrivial = (len(st["clients"]) >= 2 or fired >= 1) and st["nonexc_checked"] >= 5
        core = sum(1 for s in self.recipe if s["id"] in self.world.env) >= 2
        return {
            "run_seed": self.run_seed,
            "status": status,
            "violation": self.violation,
            "known_hits": self.known_hits,
            "case": {"property": PROPERTY, "system": NAME, "mode": self.mode, "run_seed": self.run_seed, "knobs": self.knobs, "recipe": self.recipe, "schedule": self.schedule},
            "stats": {
                "ops": st["ops"], "env": st["env"], "faults_fired": st["faults_fired"], "checked": st["checked"], "reference_reads": self.ref.requests,
                "unchecked": st["unchecked"], "probes": st["probes"], "cache_states": sorted(st["cache_states"]), "order_pairs": sorted(st["order_pairs"]),
                "signature": sig, "nontrivial": bool(nontrivial), "sim_ticks": self.clock.ticks if self.clock else 0, "build_skips": st["build_skips"],
                "core_built": bool(core), "i3_checked": st["i3_checked"], "call_outcomes": st.get("call_outcomes", {}),
            },
            "log_digest": self.log.digest(),
        }

    def op_shape(self, o):
        q = o.get("q") or (o.get("node") or {}).get("q") or {}
        tt = None
        t = o.get("target") or ((o.get("node") or {}).get("src") or {}).get("$node")
        if t and t in self.world.env:
            tt = type(self.world.env[t]).__name__
        return [o.get("op"), o.get("kind") or (o.get("node") or {}).get("kind"), tt, catalog.q_label(q) if q else None, o.get("name")]

    # -- nodes ------------------------------------------------------------------------------------

    def add_node(self, spec, initial=False):
        nid = spec["id"]
        self.ref.add_spec(spec)
        self.world.add(spec)
        passed = [d for d in self.world.passed.get(nid, []) if d in self.world.env]
        if nid in self.world.failed:
            exp, _ = self.ref.read(nid, None)
            got = self.world.failed[nid]
            if exp[0] == "build_failed" and (exp[1] == got or got == "DependencyFailed" or exp[1] == "DependencyFailed"):
                self.stats["build_skips"] += 1
                self.log.append(ev="node", id=nid, kind=spec["kind"], outcome="skipped:" + got)
            else:
                self.log.append(ev="node", id=nid, kind=spec["kind"], outcome="raises " + got)
                self.stats["checked"] += 1
                self.report("construction_depends_on_history", spec["kind"], "constructor", {"node_kind": spec["kind"]},
                            "built" if exp[0] == "built" else "raises " + str(exp[1]), "raises " + got)
            return False
        obj = self.world.env[nid]
        self.content0[nid] = content_tree(obj)
        if spec["kind"] == "preloads":
            for v in spec.get("kw", {}).values():
                if isinstance(v, dict) and "$attr" in v:
                    src = v["$attr"][0]
                    if type(self.world.env.get(src)).__name__.startswith("Inversion"):
                        self.quiescent.add(src)
        if spec["kind"] == "derive":
            self.derived_from[nid] = spec["src"]["$node"]
        self.log.append(ev="node", id=nid, kind=spec["kind"], type=type(obj).__name__, outcome="built")
        if not initial:
            self.hot.extend(passed)
        return True

    # -- invariants after every event (I1, I6) ------------------------------------------------------

    def after_event(self, what):
        for node_id, label, fp0, fp1, rec in self.world.check_owned():
            spec = self.world.specs.get(node_id, {})
            tt = type(self.world.env[node_id]).__name__ if node_id in self.world.env else spec.get("kind", "?")
            self.stats["checked"] += 1
            self.report("input_mutated", tt, label.split("<-")[0], {"during": what.split(" ")[0], "label": label}, "caller-owned array unchanged " + fp0, "changed " + fp1)
            self.world.restore_owned(rec)  # only reached for a listed known finding
            self.probe("known_finding_state_repaired")
        self.world.release_args()
        for nid, obj in list(self.world.env.items()):
            now = content_tree(obj)
            base = self.content0.get(nid)
            if base is not None and now != base:
                # only attributes that existed before and now hold a different value: an attribute that APPEARS later is a
                # hand-rolled lazy cache (tracked from then on), one that disappears is a reset - neither is a reported value changing
                keys = sorted(k for k in set(now) & set(base) if now.get(k) != base.get(k))
                self.content0[nid] = now
                if what.startswith("read:Preloads."):
                    # Preloads.set_* fills the Preloads' own slots by design; objects that merely HOLD that Preloads show it
                    keys = [k for k in keys if type(getattr(obj, k, None)).__name__ != "Preloads"]
                if not keys:
                    continue
                tn = type(obj).__name__
                if tn == "Preloads" and what.startswith("read:Preloads."):
                    continue  # Preloads.set_* fills the object's own slots by design; an inversion that merely USES it must not change it
                self.stats["checked"] += 1
                self.report("object_mutated", tn, keys[0], {"during": what, "attributes": keys}, "contents unchanged", "changed: " + ",".join(keys))
        # I7: a populated cache entry IS what its quantity will report next; its bytes must not change while it stays
        # populated.  Audited on every library object REACHABLE from a node (sub-objects such as a mapper's mesh grid or a
        # dataset's grids are not nodes themselves), each object once.
        audited = set()
        live = set()
        for nid, root in list(self.world.env.items()):
            for path, obj in catalog.reachable_objects(root):
                if id(obj) in audited:
                    continue
                audited.add(id(obj))
                d = getattr(obj, "__dict__", None)
                if not d:
                    continue
                if path and not hasattr(obj, "_array"):
                    # I1 for sub-objects: a public plain attribute of an object reachable from a node (a dataset's w_tilde
                    # table, a mapper's mapper_grids ...) must keep its value; attributes that appear later are lazy caches
                    now = {k: _attr_digest(v, 1) for k, v in d.items() if not k.startswith("_") and k not in catalog.cached_names(type(obj)) and k != "run_time_dict"}
                    rec = self.sub_content.get(id(obj))
                    if rec is None:
                        self.sub_content[id(obj)] = (obj, now)
                    else:
                        changed = sorted(k for k in set(now) & set(rec[1]) if now[k] != rec[1][k])
                        self.sub_content[id(obj)] = (obj, now)
                        if changed and type(obj).__name__ != "Preloads":
                            self.stats["checked"] += 1
                            self.report("object_mutated", type(obj).__name__, changed[0], {"during": what.split(" ")[0], "attributes": changed, "reached_from": type(root).__name__, "path": path},
                                        "contents unchanged", "changed: " + ",".join(changed))
                names = [n for n in catalog.cached_names(type(obj)) if n in d]
                if not names:
                    continue
                live.add(id(obj))
                if path and id(obj) in self.cache_fp:
                    newly = [n for n in names if n not in self.cache_fp[id(obj)]]
                elif path:
                    newly = list(names)
                else:
                    newly = []
                if newly and "[" not in path and not any(c.startswith("_") for c in path.split(".")):
                    # S1 fill event on a sub-object: its sibling quantities are the most interesting thing to read next
                    self.fresh_fills.append((nid, path, tuple(newly)))
                    del self.fresh_fills[:-16]
                # strong references to the object and to the stored values are kept, so no id can be reused while tracked
                seen = self.cache_fp.setdefault(id(obj), {"<obj>": obj})
                for n in list(seen):
                    if n != "<obj>" and n not in names:
                        del seen[n]
                for n in names:
                    val = d[n]
                    fp = (val, compare.fast_fp(val))
                    old = seen.get(n)
                    seen[n] = fp
                    if old is not None and old[0] is fp[0] and old[1] != fp[1]:
                        self.stats["checked"] += 1
                        self.report("cache_entry_changed", type(obj).__name__, n, {"during": what.split(" ")[0], "reached_from": type(root).__name__, "path": path},
                                    "the stored value of a cached quantity keeps its bytes while it stays populated", "bytes changed in place")
        for k in list(self.cache_fp):
            if k not in live:
                del self.cache_fp[k]
        g = seams.globals_fingerprint()
        if g != self.globals0:
            changed = seams.diff_fingerprints(self.globals0, g)
            self.globals0 = g
            label = changed[0]
            self.stats["checked"] += 1
            self.report("global_state_mutated", label.split(":")[-1] if label.startswith("default:") else "config", label.split("#")[0].replace("default:", ""),
                        {"during": what, "changed": changed}, "module-level default instances and configuration unchanged", "changed: " + "; ".join(changed))

    # -- applying operations ------------------------------------------------------------------------

    def apply(self, op):
        kind = op["op"]
        handler = getattr(self, "do_" + kind, None)
        if handler is None:
            return
        self.schedule.append(op)
        ok = handler(op)
        if ok is False:
            self.schedule.pop()
            return
        if kind == "env":
            self.stats["env"] += 1
        else:
            self.stats["ops"] += 1
            self.stats["clients"].add(op.get("client"))

    def do_env(self, op):
        k = op["kind"]
        if k == "evict":
            obj = self.world.env.get(op["target"])
            if obj is None or op["name"] not in getattr(obj, "__dict__", {}) or op["name"] not in catalog.cached_names(type(obj)):
                return False
            del obj.__dict__[op["name"]]
            self.stats["faults_fired"]["evict"] = self.stats["faults_fired"].get("evict", 0) + 1
            self.log.append(ev="env", kind="evict", target=op["target"], name=op["name"])
            self.after_event("evict")
        elif k == "rng_perturb":
            np.random.seed(int(op["k"]))
            if op.get("draws"):
                np.random.random(int(op["draws"]))
            self.stats["faults_fired"]["rng_perturb"] = self.stats["faults_fired"].get("rng_perturb", 0) + 1
            self.log.append(ev="env", kind="rng_perturb", k=op["k"], draws=op.get("draws"))
        elif k == "solver_fail":
            self.armed_solver = int(op["nth"])
            self.log.append(ev="env", kind="solver_fail_armed", nth=op["nth"])
        else:
            return False
        return True

    def do_node(self, op):
        spec = op["node"]
        if spec["id"] in self.world.specs:
            return False
        for d in self.world.deps(spec):
            if d not in self.world.env:
                return False
            if self.is_quiescent(d) and spec["kind"] in ("mapper_valued", "preloads", "derive"):
                return False  # these constructions read quantities of their source
        src_pop = None
        if spec["kind"] == "derive":
            src = self.world.env[spec["src"]["$node"]]
            src_pop = catalog.populated(src)
            if src_pop:
                self.probe("derived_while_source_cache_populated")
        built = self.add_node(spec)
        self.after_event(f"{spec['kind']}:{catalog.q_label(spec['q']) if spec.get('q') else spec['kind']}")
        return True

    def do_read(self, op):
        target = op["target"]
        q = op["q"]
        if target not in self.world.env:
            return False
        for a in catalog.q_nodes(q):
            if a not in self.world.env:
                return False
        if self.is_quiescent(target) or any(self.is_quiescent(a) for a in catalog.q_nodes(q) if not (type(self.world.env[target]).__name__ == "Preloads")):
            return False
        obj = self.world.env[target]
        tn = type(obj).__name__
        label = catalog.q_label(q)
        if tn == "Preloads" and q["t"] == "call":
            for a in catalog.q_nodes(q):
                self.quiescent.add(a)
                for d in self.world.passed.get(a, []):
                    if type(self.world.env.get(d)).__name__.startswith("Inversion"):
                        self.quiescent.add(d)
        shim = None
        if self.armed_solver is not None:
            shim = seams.SolverShim(self.armed_solver)
            self.armed_solver = None
        exc = None
        out = None
        try:
            if shim:
                with shim:
                    out = catalog.perform(self.world.env, target, q, world=self.world, node_id=target)
                    tree = compare.canon(out)
            else:
                out = catalog.perform(self.world.env, target, q, world=self.world, node_id=target)
                tree = compare.canon(out)
        except (Exception, SystemExit) as e:  # noqa: BLE001 - exceptions are outcomes
            exc = e
            tree = ("exc", type(e).__name__)
        if q["t"] in ("call", "fn", "userfunc"):
            # reach of the query catalogue: a call that only ever raises (on both sides) compares nothing
            co = self.stats.setdefault("call_outcomes", {})
            ck = f"{tn}.{label}|{'value' if exc is None else type(exc).__name__}"
            if exc is not None and os.environ.get("VERIF_DEBUG_CALLS"):
                ck += ": " + str(exc)[:90].replace("|", "/")  # diagnostic runs only: why a query never returns a value
            co[ck] = co.get(ck, 0) + 1
        key = (target, json.dumps(q, sort_keys=True))
        pop = catalog.populated(obj)
        self.stats["cache_states"].add(f"{tn}:{','.join(pop)}")
        prev = self.last_read.get(target)
        if prev is not None:
            self.stats["order_pairs"].add(f"{tn}.{prev}->{label}")
        self.last_read[target] = label
        hist_t = self.read_history.setdefault(target, [])
        if q["t"] in ("prop", "call", "userfunc", "path") and q not in hist_t:
            hist_t.append(q)
            del hist_t[:-6]
        if q["t"] == "call":
            # reader-after-writer: the nodes a call received, and the nodes its receiver was built from
            self.hot.extend(catalog.q_nodes(q))
            self.hot.extend(d for d in self.world.passed.get(target, []) if d in self.world.env)
            del self.hot[:-12]
        if shim is not None and shim.fired:
            self.stats["faults_fired"]["solver_fail"] = self.stats["faults_fired"].get("solver_fail", 0) + 1
            if tree[0] == "exc":
                self.recovering.add(key)
            else:
                # the fallback value may now sit in the cache of the target or of anything it was built from
                self.tainted.update(self.world.closure(self.world.specs, target))
                self.probe("injected_solver_error_absorbed_by_fallback")
            self.log.append(ev="read", target=target, type=tn, q=label, outcome="fault:" + compare.digest(tree), fault="solver_fail")
            self.uncheck("read_during_solver_fault")
            self.after_event(f"read:{tn}.{label} (solver fault)")
            return True
        if tn == "Preloads":
            # Preloads.set_*(fit_0, fit_1) fills the object's own slots by design (they alias the source inversion's arrays), so what a
            # Preloads reports IS its history; its slots are not reported quantities of the statement (DESIGN 4.1).  The call is
            # executed for its effect on the nodes passed in, which after_event and the reader-after-writer reads do check.
            self.log.append(ev="read", target=target, type=tn, q=label, outcome=compare.digest(tree))
            self.uncheck("preloads_slots_are_history_by_design")
            self.after_event(f"read:{tn}.{label}")
            return True
        if self.is_tainted(target) or any(self.is_tainted(a) for a in catalog.q_nodes(q)):
            self.log.append(ev="read", target=target, type=tn, q=label, outcome=compare.digest(tree))
            self.uncheck("after_absorbed_solver_fault")
            self.after_event(f"read:{tn}.{label}")
            return True
        # ---- I2: refinement against the pristine twin
        if key in self.memo:
            expected = self.memo[key]
            info = {}
        else:
            twice = (self.ref.requests % 8) == 0
            expected, info = self.ref.read(target, q, twice)
            self.memo[key] = expected
        self.log.append(ev="read", target=target, type=tn, q=label, outcome=compare.digest(tree))
        cond = {"derived": target in self.derived_from, "populated_before": pop[:6]}
        if info.get("globals_changed"):
            self.stats["checked"] += 1
            lab = info["globals_changed"][0]
            self.report("pristine_op_mutates_global", tn, label, {"changed": info["globals_changed"]}, "a single operation on a fresh object leaves process-global state unchanged", "changed " + lab)
        if info.get("repeat_equal") is False:
            self.stats["checked"] += 1
            self.report("nondeterministic", tn, label, {}, "identical results for equal inputs", "two pristine twins disagree")
        if "repeat_equal" in info:
            self.probe("reference_read_repeated_on_second_twin")
        if expected[0] == "build_failed":
            self.stats["checked"] += 1
            self.report("construction_depends_on_history", tn, "constructor", cond, "raises " + str(expected[1]), "built")
            return True
        if expected[0] == "owned_changed":
            expected = expected[1]
        self.stats["checked"] += 1
        if tree[0] != "exc" and expected[0] != "exc":
            self.stats["nonexc_checked"] += 1
        if compare.digest(tree) != compare.digest(expected):
            self.report("history_dependence", tn, label, cond, compare.describe(expected), compare.describe(tree))
        elif key in self.recovering:
            self.recovering.discard(key)
            self.probe("solver_failure_then_recovery")
        if tn == "SimulatorImaging" and label == "via_image_from" and tree[0] != "exc":
            self.probe("seeded_simulation_compared")
        if q["t"] == "fn" and tree[0] != "exc":
            self.probe("seeded_noise_helper_compared")
        # ---- I3: cached quantities of value types equal those of an object rebuilt from the contents
        if q["t"] == "prop" and tn in VALUE_TYPES and exc is None and q["name"] in catalog.cached_names(type(obj)):
            try:
                rebuilt = rebuild_from_contents(obj)
            except Exception:  # noqa: BLE001
                rebuilt = None
            if rebuilt is not None:
                try:
                    t2 = compare.canon(getattr(rebuilt, q["name"]))
                except (Exception, SystemExit) as e:  # noqa: BLE001
                    t2 = ("exc", type(e).__name__)
                self.stats["i3_checked"] += 1
                self.stats["checked"] += 1
                if compare.digest(t2) != compare.digest(tree):
                    self.report("inconsistent_with_contents", tn, label, cond, compare.describe(t2) + " (object rebuilt from the same contents)", compare.describe(tree))
        self.after_event(f"read:{tn}.{label}")
        return True

    # -- generation: the seeded scheduler -----------------------------------------------------------

    def generate_and_run(self):
        rs, rf = self.streams["schedule"], self.streams["faults"]
        k = self.knobs
        ids = [n for n in self.world.order if n in self.world.env]
        if not ids:
            return
        clients = []
        for c in range(k["n_clients"]):
            role = rs.choice(["reader", "reader", "reader", "deriver", "deriver", "constructor"])
            # client affinity, weighted towards graph nodes (objects built from other objects)
            weights = [3 if self.world.passed.get(n) else 1 for n in ids]
            anchor = rs.choices(ids, weights=weights)[0]
            near = [anchor] + [d for d in self.world.passed.get(anchor, []) if d in self.world.env]
            near += [n for n in ids if anchor in self.world.passed.get(n, [])]
            rs.shuffle(near)
            clients.append({"name": f"{role[0]}{c}", "role": role, "nodes": list(dict.fromkeys(near))[: rs.randrange(1, 4)], "queue": []})
        # one client in two runs is a SWEEPER: it reads every cached quantity of one graph node once, in a seeded order, so that
        # rarely chosen quantities (data_subtracted_dict, reconstruction_noise_map ...) are exercised in a fixed fraction of runs
        graph_nodes = [n for n in ids if self.world.passed.get(n)]
        n_sweep = 0
        if graph_nodes and rs.random() < 0.5:
            # weighted by how many cached quantities a node has: an inversion (about forty) is swept far more often than an array (none)
            t = rs.choices(graph_nodes, weights=[1 + len(catalog.cached_names(type(self.world.env[n]))) for n in graph_nodes])[0]
            names = [n for n in catalog.cached_names(type(self.world.env[t])) if not n.startswith("_")]
            rs.shuffle(names)
            sweeper = rs.choice(clients)
            sweeper["queue"] = [{"op": "read", "client": sweeper["name"], "target": t, "q": {"t": "prop", "name": nm}} for nm in names] + sweeper["queue"]
            n_sweep = len(names)
            self.probe("sweeper_client")
        n_ops = k["n_ops"] + n_sweep
        idle = 0
        self.extra_ops = 0
        while len(self.schedule) < n_ops + self.extra_ops and idle < 200:
            u = rf.random()
            if u < k["p_evict"]:
                cands = [(n, name) for n in self.world.order if n in self.world.env for name in catalog.populated(self.world.env[n])]
                if cands:
                    n, name = rf.choice(cands)
                    self.apply({"op": "env", "kind": "evict", "target": n, "name": name})
                    continue
            elif u < k["p_evict"] + k["p_rng"]:
                self.apply({"op": "env", "kind": "rng_perturb", "k": rf.randrange(0, 2**31), "draws": rf.randrange(0, 50)})
                continue
            elif u < k["p_evict"] + k["p_rng"] + k["p_solver"]:
                # a fault while idle tests nothing: arm it right before a read that calls into a solver
                targets = [n for n in self.world.order if n in self.world.env and type(self.world.env[n]).__name__ in SOLVER_READS]
                if targets:
                    t = rf.choice(targets)
                    self.apply({"op": "env", "kind": "solver_fail", "nth": rf.randrange(1, 3)})
                    name = rf.choice(SOLVER_READS[type(self.world.env[t]).__name__])
                    self.apply({"op": "read", "client": rs.choice(clients)["name"], "target": t, "q": {"t": "prop", "name": name}})
                    # bounded liveness: the re-read once the fault has stopped must give the reference value
                    if rf.random() < 0.7:
                        self.apply({"op": "read", "client": rs.choice(clients)["name"], "target": t, "q": {"t": "prop", "name": name}})
                    continue
            client = rs.choice(clients)
            op = self.propose(client, rs)
            if op is None:
                idle += 1
                continue
            self.apply(op)
            if op.get("op") == "node" and (op.get("node") or {}).get("kind") == "derive":
                self.after_derive_hint(client, op["node"], rs)

    def after_derive_hint(self, client, spec, rs):
        """
        A workload hint, not an oracle: when a derived object shares a PRIVATE mutable container (dict / list / set that is not a
        cached_property) by identity with its source, something hand-rolled travelled through the derivation.  That is legal if it
        is keyed on the contents - so nothing is reported - but it is exactly where a stale answer would come from, so the derived
        object and its source are asked a sweep of query calls in pairs (same call, same arguments, source first) and the source is
        asked its recent questions again.
        """
        env = self.world.env
        nid, src = spec["id"], spec["src"]["$node"]
        new, old = env.get(nid), env.get(src)
        dn, do = getattr(new, "__dict__", None), getattr(old, "__dict__", None)
        if not dn or not do or new is old:
            return
        cached = set(catalog.cached_names(type(new)))
        carried = [k for k, v in dn.items() if k.startswith("_") and k not in cached and k in do and do[k] is v and isinstance(v, (dict, list, set))]
        if not carried:
            return
        self.probe("derived_shares_private_container_with_source")
        if os.environ.get("VERIF_DEBUG_CALLS"):
            self.probe(f"hint:{type(new).__name__}:{catalog.q_label(spec['q'])}:{','.join(carried)}")
        reads = []
        for _ in range(2):
            reads += [c for c in catalog.curated_calls(new, rs, self.nodes_by_type(), env) if c["t"] == "call"]
        rs.shuffle(reads)
        for c in reads[:12]:
            # the same question, same arguments, to the source and then to the derived object: whatever the shared container
            # remembers for these arguments is now the source's answer
            client["queue"].append({"op": "read", "client": client["name"], "target": src, "q": c})
            client["queue"].append({"op": "read", "client": client["name"], "target": nid, "q": c})
        for q_old in list(self.read_history.get(src, []))[-3:]:
            client["queue"].append({"op": "read", "client": client["name"], "target": src, "q": q_old})
        # the run is extended so that the sweep is actually carried out (once per run: the hint can fire for every derivation)
        if not self.extra_ops:
            self.extra_ops = 3 * len(client["queue"])

    def propose(self, client, rs):
        k = self.knobs
        if client["queue"]:
            return client["queue"].pop(0)
        env = self.world.env
        # reader-after-writer: nodes that were just passed to a call / constructor
        if self.hot and rs.random() < 0.6:
            target = self.hot.pop(0)
            if target in env:
                return self.read_op(client, target, rs)
        # fill-triggered sibling reads: a sub-object whose cache entries were just filled
        if self.fresh_fills and rs.random() < 0.5:
            nid, path, newly = self.fresh_fills.pop(rs.randrange(len(self.fresh_fills)))
            if nid in env:
                try:
                    sub = env[nid]
                    for c in path.split("."):
                        sub = sub.__dict__[c]
                except Exception:  # noqa: BLE001
                    sub = None
                if sub is not None:
                    names = catalog.readable_names(sub)
                    cached = [n for n in catalog.cached_names(type(sub)) if not n.startswith("_")]
                    if names:
                        last = rs.choice(cached) if (cached and rs.random() < 0.5) else rs.choice(names)
                        self.probe("fill_triggered_sibling_read")
                        return {"op": "read", "client": client["name"], "target": nid, "q": {"t": "path", "names": path.split(".") + [last]}}
        # twin reads: the SAME question put to two objects of the same type one after the other - state that is keyed too
        # coarsely (on bytes without shape, on a shared sub-object, on a module-level memo) answers the second with the first's value
        if rs.random() < 0.1:
            nbt = self.nodes_by_type()
            multi = [t for t, ids_ in sorted(nbt.items()) if len(ids_) >= 2 and t != "Preloads"]
            if multi:
                t = rs.choice(multi)
                a, b = rs.sample(nbt[t], 2)
                if not (self.is_quiescent(a) or self.is_quiescent(b)):
                    first = self.read_op(client, a, rs)
                    if first is not None and not catalog.q_nodes(first["q"]):
                        client["queue"].insert(0, dict(first, target=b))
                        self.probe("twin_read")
                        return first
        uniform = rs.random() < k["p_uniform"]
        pool = [n for n in (self.world.order if uniform else client["nodes"]) if n in env]
        if not pool:
            pool = [n for n in self.world.order if n in env]
        role = client["role"]
        if role == "deriver" and rs.random() < 0.6:
            # cache-aware derive: prefer a source with populated cached entries, then read the SAME names on the derived node
            cands = [n for n in self.world.order if n in env and catalog.populated(env[n])]
            src = rs.choice(cands) if (cands and rs.random() < 0.7) else rs.choice(pool)
            ders = catalog.derivations(env[src], rs, self.nodes_by_type())
            if not ders:
                return self.read_op(client, src, rs)
            q = rs.choice(ders)
            nid = self.new_node_id("d")
            spec = {"id": nid, "kind": "derive", "src": {"$node": src}, "q": q}
            names = list(catalog.populated(env[src]))
            all_names = catalog.readable_names(env[src])
            names += [rs.choice(all_names) for _ in range(3)] if all_names else []
            for nm in names:
                client["queue"].append({"op": "read", "client": client["name"], "target": nid, "q": {"t": "prop", "name": nm}})
            # history-aware derive: whatever was asked of the source before (property, query call, user function) is asked of
            # the derived object too - state a derivation should not carry over need not live in a cached_property
            for q_old in list(self.read_history.get(src, []))[-3:]:
                client["queue"].append({"op": "read", "client": client["name"], "target": nid, "q": q_old})
            if nid not in client["nodes"]:
                client["nodes"].append(nid)
            node_op = {"op": "node", "client": client["name"], "node": spec}
            if rs.random() < 0.3:
                # ask-then-derive-then-ask-again: a query call on the source immediately before the derivation, the same call
                # on the derived object right after it ("objects later derived from it")
                calls = [c for c in catalog.curated_calls(env[src], rs, self.nodes_by_type(), env) if c["t"] == "call"]
                if calls:
                    c = rs.choice(calls)
                    client["queue"].insert(0, {"op": "read", "client": client["name"], "target": nid, "q": c})
                    client["queue"].insert(0, node_op)
                    self.probe("call_then_derive_then_same_call")
                    return {"op": "read", "client": client["name"], "target": src, "q": c}
            return node_op
        if role == "constructor" and rs.random() < 0.5:
            spec = self.gen_construct(rs)
            if spec is not None:
                client["nodes"].append(spec["id"])
                return {"op": "node", "client": client["name"], "node": spec}
        return self.read_op(client, rs.choice(pool), rs)

    def read_op(self, client, target, rs):
        obj = self.world.env[target]
        # repetition: "the same value whatever the order and NUMBER of earlier accesses" - re-issue an earlier read verbatim
        hist = client.setdefault("history", [])
        if hist and rs.random() < 0.12:
            old = rs.choice(hist)
            if old["target"] in self.world.env:
                self.probe("read_repeated_verbatim")
                return dict(old, client=client["name"])
        names = catalog.readable_names(obj)
        p_call = 0.3 if len(names) > 12 else 0.6
        if rs.random() < p_call:
            calls = catalog.curated_calls(obj, rs, self.nodes_by_type(), self.world.env)
            if calls:
                op = {"op": "read", "client": client["name"], "target": target, "q": rs.choice(calls)}
                hist.append(op)
                del hist[:-10]
                if rs.random() < 0.3:
                    # near-miss repetition: the same question again with ONE real-valued argument moved by a part in ten million
                    # (verbatim repetition finds state keyed too finely or not at all; this finds state keyed too coarsely - a
                    # rounded or tolerance-compared key answers the second request with the first request's value)
                    near = near_miss(op["q"], rs)
                    if near is not None:
                        client["queue"].insert(0, {"op": "read", "client": client["name"], "target": target, "q": near})
                        self.probe("near_miss_repetition")
                return op
        if not names:
            return None
        if rs.random() < 0.15:
            # helper accessors (mask.derive_indexes.border_native, array.geometry.extent ...): properties that build a fresh helper
            # object on every access, so they are neither nodes nor reachable through __dict__
            acc = [(a, c) for a, c in helper_accessors().items() if a in names]
            if acc:
                a, cls = rs.choice(acc)
                sub_names = catalog.prop_names(cls)
                if sub_names:
                    return {"op": "read", "client": client["name"], "target": target, "q": {"t": "path", "names": [a, rs.choice(sub_names)]}}
        if rs.random() < 0.2:
            # descend into a sub-object that is not a node itself and read one of ITS quantities (a path read)
            subs = [(pth, sub) for pth, sub in catalog.reachable_objects(obj, max_depth=3, limit=60)
                    if pth and "[" not in pth and not any(c.startswith("_") for c in pth.split(".")) and catalog.readable_names(sub)]
            if subs:
                pth, sub = rs.choice(subs)
                sub_names = catalog.readable_names(sub)
                cached = [n for n in catalog.cached_names(type(sub)) if not n.startswith("_")]
                last = rs.choice(cached) if (cached and rs.random() < 0.5) else rs.choice(sub_names)
                return {"op": "read", "client": client["name"], "target": target, "q": {"t": "path", "names": pth.split(".") + [last]}}
        # bias to cached properties (they are where history can hide)
        cached = [n for n in catalog.cached_names(type(obj)) if not n.startswith("_")]
        name = rs.choice(cached) if (cached and rs.random() < 0.35) else rs.choice(names)
        return {"op": "read", "client": client["name"], "target": target, "q": {"t": "prop", "name": name}}

    def gen_construct(self, rs):
        """A new object built mid-history from caller-owned raw arrays (and existing nodes)."""
        nbt = self.nodes_by_type()
        rv = self.streams["values"]
        choices = []
        masks = nbt.get("Mask2D", [])
        if masks:
            choices += ["array2d", "grid2d", "vector"]
        datasets = [d for d in nbt.get("Imaging", []) if d in self.derived_from]
        objs = nbt.get("MapperRectangular", []) + nbt.get("MapperDelaunay", []) + nbt.get("FuncList", [])
        if datasets and objs:
            choices += ["inversion", "inversion"]
        mappers = nbt.get("MapperRectangular", []) + nbt.get("MapperDelaunay", [])
        if mappers:
            choices += ["mapper_valued"]
        if not choices:
            return None
        c = rs.choice(choices)
        if c in ("array2d", "grid2d", "vector"):
            m = rs.choice(masks)
            mo = self.world.env[m]
            hh, ww = mo.shape_native
            n_un = int(np.sum(~np.asarray(mo)))
            if c == "array2d":
                native = rs.random() < 0.5
                return {"id": self.new_node_id("a"), "kind": "array2d", "mask": {"$node": m}, "input": "native" if native else "slim",
                        "values": gen.hx(rv, hh * ww if native else n_un, "data"), "store_native": rs.random() < 0.3}
            native = rs.random() < 0.6
            n = (hh * ww if native else n_un) * 2
            if c == "grid2d":
                return {"id": self.new_node_id("g"), "kind": "grid2d", "mask": {"$node": m}, "mode": "native" if native else "slim", "values": gen.hx(rv, n, "normal"), "over": None}
            return {"id": self.new_node_id("v"), "kind": "vector_yx2d", "mask": {"$node": m}, "mode": "native" if native else "slim", "values": gen.hx(rv, n, "normal")}
        if c == "inversion":
            ds = rs.choice(datasets)
            mask_id = None
            chosen = rs.sample(objs, min(len(objs), rs.randrange(1, 3)))
            settings = nbt.get("SettingsInversion", [])
            return {"id": self.new_node_id("inv"), "kind": "inversion", "dataset": {"$node": ds}, "objs": [{"$node": o} for o in chosen],
                    "settings": {"$node": rs.choice(settings)} if (settings and rs.random() < 0.5) else None}
        if c == "mapper_valued":
            mp = rs.choice(mappers)
            npix = int(self.world.env[mp].params)
            invs = [i for i in nbt.get("InversionImagingMapping", []) + nbt.get("InversionImagingWTilde", [])
                    if len(self.world.specs[i].get("objs", [])) == 1 and self.world.specs[i]["objs"][0]["$node"] == mp]
            if invs and rs.random() < 0.6:
                values = {"from": {"$node": rs.choice(invs)}, "prop": "reconstruction"}
            else:
                values = {"raw": gen.hx(rv, npix, "positive")}
            mpm = "".join("1" if rs.random() < 0.3 else "0" for _ in range(npix)) if rs.random() < 0.75 else None
            return {"id": self.new_node_id("mv"), "kind": "mapper_valued", "mapper": {"$node": mp}, "values": values, "mesh_pixel_mask": mpm}
        return None


# ---------------------------------------------------------------------------------------------------


def near_miss(q, rs):
    """q with one float leaf of its keyword arguments (inside $tuple / plain lists; never an integer, a node or an array) moved by
    a relative 1e-7, or None when it has no such leaf"""
    import copy

    q2 = copy.deepcopy(q)
    leaves = []

    def walk(v):
        if isinstance(v, dict):
            for k, x in v.items():
                if k in ("$node", "$attr", "$arr", "$ints", "$cls", "$selfprop", "$over_dataset", "$shape"):
                    continue
                if isinstance(x, list):
                    for i, y in enumerate(x):
                        if isinstance(y, float):
                            leaves.append((x, i))
                        else:
                            walk(y)
                elif isinstance(x, float):
                    leaves.append((v, k))
                else:
                    walk(x)
        elif isinstance(v, list):
            for i, y in enumerate(v):
                if isinstance(y, float):
                    leaves.append((v, i))
                else:
                    walk(y)

    walk(q2.get("kw", {}))
    if not leaves:
        return None
    box, key = rs.choice(leaves)
    x = box[key]
    box[key] = x * (1.0 + 1.0e-7) if x != 0.0 else 1.0e-9
    return q2


def execute(run_seed, case, cfg, known):
    return PuritySim(run_seed, case, cfg, known).run()


def _refs(v, out):
    if isinstance(v, dict):
        if "$node" in v:
            out.add(v["$node"])
        if "$attr" in v:
            out.add(v["$attr"][0])
        for x in v.values():
            _refs(x, out)
    elif isinstance(v, list):
        for x in v:
            _refs(x, out)


def simplifications(case):
    """After ddmin: keep only the recipe nodes the schedule (transitively) needs; then try without each remaining node whose
    removal leaves the recipe closed; drop config knobs; drop the profiling path."""
    import copy

    by_id = {n["id"]: n for n in case["recipe"]}
    needed = set()
    for op in case["schedule"]:
        if op.get("target"):
            needed.add(op["target"])
        _refs(op, needed)
    frontier = list(needed)
    while frontier:
        n = by_id.get(frontier.pop())
        if n is None:
            continue
        deps = set()
        _refs({k: v for k, v in n.items() if k not in ("id", "kind")}, deps)
        for d in deps - needed:
            needed.add(d)
            frontier.append(d)
    pruned = [n for n in case["recipe"] if n["id"] in needed]
    if len(pruned) < len(case["recipe"]):
        c = copy.deepcopy(case)
        c["recipe"] = pruned
        yield c
    # nodes nothing else refers to (only possible when the schedule is empty or refers to them indirectly)
    referenced = set()
    for n in case["recipe"]:
        _refs({k: v for k, v in n.items() if k not in ("id", "kind")}, referenced)
    sched_refs = set()
    for op in case["schedule"]:
        if op.get("target"):
            sched_refs.add(op["target"])
        _refs(op, sched_refs)
    for n in reversed(case["recipe"]):
        if n["id"] not in referenced and n["id"] not in sched_refs and len(case["recipe"]) > 1:
            c = copy.deepcopy(case)
            c["recipe"] = [x for x in c["recipe"] if x["id"] != n["id"]]
            yield c
    if case["knobs"].get("conf"):
        c = copy.deepcopy(case)
        c["knobs"]["conf"] = {}
        yield c
    if case["knobs"].get("profile_on"):
        c = copy.deepcopy(case)
        c["knobs"]["profile_on"] = False
        yield c


RULE = (
    "one case = one seeded run: a recipe (DAG of library objects built from raw arrays: masks, arrays, grids, vectors, kernels, visibilities, imaging datasets, "
    "masked/trimmed datasets, mappers, linear function lists, inversions through the aa.Inversion factory, fits, valued mappers, simulators) and a schedule of 20-60 "
    "operations issued by 2-6 interleaved clients (property reads over the INTROSPECTED readable set, curated query calls incl. the classmethod constructors, derivations by "
    "arithmetic/slicing/copy/apply_mask/trim, mid-history constructions from caller-owned arrays and lists) plus environment events (cache eviction, global-RNG perturbation, "
    "solver failure). coverage.query_calls lists, per Type.query, how often a call returned a value or raised which exception. "
    "A case is non-trivial when (>= 2 clients interleaved or >= 1 fault fired) AND >= 5 reads were compared against a pristine twin with a non-exception value on both sides; "
    "distinct = distinct SHA-1 of (node kinds of the recipe, sequence of (operation, node kind, target type, quantity))."
)
STATE_MEASURE = "distinct (type, frozenset of populated cached-property names) pairs observed on the object a read targets"
EXPECTED_PROBES = ["derived_while_source_cache_populated", "reference_read_repeated_on_second_twin", "seeded_simulation_compared", "solver_failure_then_recovery"]
STUBS = [
    "FuncList: 4-line user subclass of AbstractLinearObjFuncList returning a given mapping matrix",
    "FitStub: subclass of FitImaging returning a given model_data / a given inversion and, optionally, a scaled noise-map (the documented override)",
    "ProfileStub: a user object with @over_sample / @to_array / @to_grid decorated functions of a grid, as light and mass profiles are downstream; sim/config_extras/grids.yaml gives it the adaptive over-sampling scheme a downstream package ships (searched after the library's own config)",
    "SimClock behind autoarray.numba_util.time when the profiling knob is on",
    "pylops stand-in: a 3-line `pylops.LinearOperator` base class installed before `import autoarray` so that TransformerDFT / Interferometer / InversionInterferometerMapping construct and run their own numpy code; pylops' solvers are not provided and never exercised",
    "numba absent: every @jit function runs as the Python it is written in; pynufft and the Voronoi C library absent: no TransformerNUFFT or MapperVoronoi nodes",
]
ASSUMPTIONS = [
    "exact (bitwise, NaN-aware) equality between two executions of the same code path is sound: the library was measured bit-identical across fresh interpreters, PYTHONHASHSEED values and thread counts",
    "BLAS/OpenMP pinned to one thread; PYTHONHASHSEED fixed",
    "the read performed while an injected solver failure fires is not compared (it may raise anything); every other read, including the re-read of the same quantity, is",
    "exceptions are compared by type name only; objects of unknown type by type name only",
    "not injected: caller-side mutation of inputs, __setitem__ on derived objects, mid-session config changes, threads",
    "sampling, not enumeration: a clean batch is evidence, not proof",
]
TIERS = {
    "quick": {"batches": [("nofault", 2400), ("fault", 1400)], "wall_cap": 100.0},
    "thorough": {"batches": [("nofault", 60000), ("fault", 30000)], "wall_cap": 1200.0, "selftest_seeds": 40},
}
