"""
The only stubs in the object graph: the two extension points the library documents for users.

 * FuncList   - a 4-line subclass of AbstractLinearObjFuncList returning a given mapping matrix
 * FitStub    - a subclass of FitImaging returning a given model_data / a given inversion (and, optionally, a scaled noise-map)
"""
import numpy as np

_cache = {}


def classes():
    if _cache:
        return _cache
    import autoarray as aa

    class FuncList(aa.AbstractLinearObjFuncList):
        def __init__(self, grid, matrix, regularization=None, run_time_dict=None, override=None):
            super().__init__(grid=grid, regularization=regularization, run_time_dict=run_time_dict)
            self._matrix = matrix
            self._override = override

        @property
        def operated_mapping_matrix_override(self):
            # what linear light profiles do downstream: they supply their own already-operated mapping matrix
            return self._override

        @property
        def params(self):
            return self._matrix.shape[1]

        @property
        def mapping_matrix(self):
            return self._matrix

    class FitStub(aa.FitImaging):
        def __init__(self, dataset, model_data=None, inversion=None, use_mask_in_fit=False, run_time_dict=None, dataset_model=None, noise_map=None):
            super().__init__(dataset=dataset, use_mask_in_fit=use_mask_in_fit, dataset_model=dataset_model, run_time_dict=run_time_dict)
            self._model_data = model_data
            self._inversion = inversion
            self._noise_map = noise_map

        @property
        def noise_map(self):
            # "Overwrite this method to return the noise-map": a fit with a scaled noise-map (down-weighted regions) of the same dataset
            if self._noise_map is not None:
                return self._noise_map
            return super().noise_map

        @property
        def model_data(self):
            if self._model_data is not None:
                return self._model_data
            return self._inversion.mapped_reconstructed_data

        @property
        def inversion(self):
            return self._inversion

    class ProfileStub:
        """A user object with a decorated function of a grid, as light / mass profiles are downstream: the over-sampling
        decorator evaluates it through the grid's over-sampler (uniform or iterative)."""

        def __init__(self, centre, scale):
            self.centre = centre
            self.scale = scale

        @aa.over_sample
        @aa.grid_dec.to_array
        def image_2d_from(self, grid, *args, **kwargs):
            radii = np.sqrt(np.square(grid[:, 0] - self.centre[0]) + np.square(grid[:, 1] - self.centre[1]))
            return np.exp(-radii / self.scale)

        @aa.grid_dec.to_grid
        def deflections_yx_2d_from(self, grid, *args, **kwargs):
            return np.stack((self.scale * (grid[:, 0] - self.centre[0]), self.scale * (grid[:, 1] - self.centre[1])), axis=-1)

    _cache["ProfileStub"] = ProfileStub
    _cache["FuncList"] = FuncList
    _cache["FitStub"] = FitStub
    return _cache
