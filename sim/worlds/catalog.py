"""
What clients can do to a node: `perform(env, target, q)` executes one public read / query call / derivation,
identically on the system-under-test timeline and on a pristine twin.

q (JSON-able):
  {"t":"prop","name":n}                         public property / cached property / public instance attribute
  {"t":"call","name":"a.b","kw":{...}}           public method (dotted path from the target), keyword arguments
  {"t":"op","name":mul|add|sub|rsub|truediv|pow|neg|abs,"other":x}
  {"t":"item","key":k | [a,b]}                  indexing / slicing
  {"t":"copy"} | {"t":"deepcopy"}
  {"t":"fn","name":"preprocess.x","kw":{...}}    function of the public `autoarray` namespace (target is nominal)
argument values: JSON scalars, {"$node":id}, {"$tuple":[..]}, {"$arr":[hex..],"shape":[..]}, {"$list":[...]}

The readable set of a node is INTROSPECTED at run time, so renamed / added / removed properties change coverage,
never outcomes (DESIGN 3.8a).
"""
import copy as _copy
import inspect
import operator

import numpy as np

from sim.core import prng

DENY_PROPS = {
    # plotting / output helpers and numpy passthroughs that carry no library semantics
    "hdu_for_output",
    "T",
}
DENY_TYPES_PREFIX = ("matplotlib",)

_cached_names_memo = {}
_prop_names_memo = {}


def _is_cached(attr):
    return type(attr).__name__ in ("CachedProperty", "cached_property")


def prop_names(cls):
    """Sorted public property / cached-property names of a class (introspected, memoised per class)."""
    if cls in _prop_names_memo:
        return _prop_names_memo[cls]
    names = []
    for n in sorted(dir(cls)):
        if n.startswith("_") or n in DENY_PROPS:
            continue
        try:
            a = inspect.getattr_static(cls, n)
        except AttributeError:
            continue
        if isinstance(a, property) or _is_cached(a):
            names.append(n)
    _prop_names_memo[cls] = names
    return names


def cached_names(cls):
    if cls in _cached_names_memo:
        return _cached_names_memo[cls]
    names = []
    for n in sorted(dir(cls)):
        if n.startswith("__"):
            continue
        try:
            a = inspect.getattr_static(cls, n)
        except AttributeError:
            continue
        if _is_cached(a):
            names.append(n)
    _cached_names_memo[cls] = names
    return names


def populated(obj):
    d = getattr(obj, "__dict__", None)
    if not d:
        return []
    return [n for n in cached_names(type(obj)) if n in d]


def readable_names(obj):
    names = list(prop_names(type(obj)))
    d = getattr(obj, "__dict__", None)
    if d:
        extra = sorted(k for k in d if not k.startswith("_") and k not in names and k not in ("run_time_dict",))
        names = names + extra
    return names


def reachable_objects(root, max_depth=3, limit=400):
    """[(path, object)] of library objects reachable from root through instance attributes (incl. populated cache entries),
    lists/tuples/dicts of them one level deep; each object once (by id)."""
    out = []
    seen = set()
    stack = [("", root, 0)]
    while stack and len(out) < limit:
        path, obj, depth = stack.pop()
        if id(obj) in seen:
            continue
        seen.add(id(obj))
        out.append((path, obj))
        if depth >= max_depth:
            continue
        d = getattr(obj, "__dict__", None)
        if not d:
            continue
        for k in sorted(d, reverse=True):
            v = d[k]
            if is_library_object(v) and hasattr(v, "__dict__"):
                stack.append((f"{path}.{k}" if path else k, v, depth + 1))
            elif isinstance(v, (list, tuple)) and len(v) <= 8:
                for i, x in enumerate(v):
                    if is_library_object(x) and hasattr(x, "__dict__"):
                        stack.append((f"{path}.{k}[{i}]" if path else f"{k}[{i}]", x, depth + 1))
    return out


def is_library_object(x):
    mod = type(x).__module__ or ""
    return mod.startswith("autoarray") or mod.startswith("sim.worlds.userobjs")


# ---------------------------------------------------------------------------------------------------


def _arg(env, v, world=None, node_id=None, label="", self_obj=None):
    if isinstance(v, dict):
        if "$node" in v:
            return env[v["$node"]]
        if "$self" in v:
            return self_obj
        if "$selfprop" in v:
            return getattr(self_obj, v["$selfprop"])
        if "$shape" in v:
            import autoarray as aa

            sh = v["$shape"]
            if sh[0] == "Circle":
                return aa.Circle(x=sh[1], y=sh[2], radius=sh[3])
            return aa.Square(x=sh[1], y=sh[2], side=sh[3]) if hasattr(aa, "Square") and sh[0] == "Square" else aa.Circle(x=sh[1], y=sh[2], radius=sh[3])
        if "$ints" in v:
            return np.array(v["$ints"], dtype=int)
        if "$array_on" in v:
            # deterministic values on the mask the expression evaluates to (e.g. a blurring mask only known at run time)
            import autoarray as aa

            m = _arg(env, v["$array_on"][0], world, node_id, label, self_obj)
            n = int(np.sum(~np.asarray(m)))
            vals = np.sin(np.arange(n) * 0.7 + float(v["$array_on"][1])) + 1.5
            return aa.Array2D(values=vals, mask=m)
        if "$call" in v:
            o = _arg(env, v["$call"][0], world, node_id, label, self_obj)
            fn = o
            for part in v["$call"][1].split("."):
                fn = getattr(fn, part)
            return fn(**{k: _arg(env, x, world, node_id, label, self_obj) for k, x in v["$call"][2].items()})
        if "$abs" in v:
            return abs(_arg(env, v["$abs"], world, node_id, label, self_obj))
        if "$const_like" in v:
            base = _arg(env, v["$const_like"][0], world, node_id, label, self_obj)
            return (base * 0.0) + float(v["$const_like"][1])
        if "$over_dataset" in v:
            import autoarray as aa

            o = v["$over_dataset"]
            req = aa.OverSamplingDataset(**{k: aa.OverSamplingUniform(sub_size=int(x)) for k, x in o.items()})
            if world is not None:
                world.own_obj(node_id or "?", "arg:" + label, req)  # the caller's request object must come back as it went in
            return req
        if "$tuple" in v:
            return tuple(_arg(env, x, world, node_id, label, self_obj) for x in v["$tuple"])
        if "$list" in v:
            lst = [_arg(env, x, world, node_id, label, self_obj) for x in v["$list"]]
            if world is not None:
                world.own_seq(node_id or "?", "arg:" + label, lst)
            return lst
        if "$arr" in v:
            a = np.array([prng.unhex(x) for x in v["$arr"]], dtype=np.float64)
            if v.get("shape"):
                a = a.reshape(tuple(v["shape"]))
            if world is not None:
                world.own(node_id or "?", "arg:" + label, a)
            return a
        if "$attr" in v:
            return getattr(env[v["$attr"][0]], v["$attr"][1])
        if "$cls" in v:
            import importlib

            mod, _, name = v["$cls"].rpartition(".")
            return getattr(importlib.import_module(mod), name)
        return {k: _arg(env, x, world, node_id, label, self_obj) for k, x in v.items()}
    if isinstance(v, list) and world is not None:
        import copy as _c

        lst = _c.deepcopy(v)  # a plain list argument (indexes, groups of indexes): the recipe's own copy stays untouched
        world.own_seq(node_id or "?", "arg:" + label, lst)
        for sub in lst:
            if isinstance(sub, list):
                world.own_seq(node_id or "?", "arg:" + label + "[]", sub)
        return lst
    return v


_OPS = {
    "mul": operator.mul,
    "add": operator.add,
    "sub": operator.sub,
    "truediv": operator.truediv,
    "pow": operator.pow,
    "rsub": lambda a, b: b - a,
    "rmul": lambda a, b: b * a,
    "radd": lambda a, b: b + a,
}


def perform(env, target_id, q, world=None, node_id=None):
    """Execute q on env[target_id]; returns the value or raises what the library raises."""
    t = q["t"]
    obj = env[target_id]
    if t == "prop":
        return getattr(obj, q["name"])
    if t == "path":
        # a chain of property reads through sub-objects that are not nodes themselves (mapper.source_plane_mesh_grid.split_cross)
        for name in q["names"]:
            obj = getattr(obj, name)
        return obj
    if t == "call":
        fn = obj
        for part in q["name"].split("."):
            fn = getattr(fn, part)
        kw = {k: _arg(env, v, world, node_id, k, obj) for k, v in q.get("kw", {}).items()}
        return fn(**kw)
    if t == "op":
        name = q["name"]
        if name == "neg":
            return -obj
        if name == "abs":
            return abs(obj)
        return _OPS[name](obj, _arg(env, q["other"], world, node_id, "other"))
    if t == "item":
        k = q["key"]
        if isinstance(k, list):
            if k and isinstance(k[0], list):
                return obj[tuple(slice(a, b) for a, b in k)]
            return obj[slice(k[0], k[1])]
        return obj[k]
    if t == "copy":
        return _copy.copy(obj)
    if t == "deepcopy":
        return _copy.deepcopy(obj)
    if t == "userfunc":
        from sim.worlds import userobjs

        prof = userobjs.classes()["ProfileStub"](centre=tuple(q["centre"]), scale=float(q["scale"]))
        return getattr(prof, q["name"])(grid=obj)
    if t == "fn":
        import autoarray as aa

        fn = aa
        for part in q["name"].split("."):
            fn = getattr(fn, part)
        kw = {k: _arg(env, v, world, node_id, k, obj) for k, v in q.get("kw", {}).items()}
        return fn(**kw)
    raise ValueError(f"unknown q type {t}")


def q_nodes(q):
    """node ids referenced by the arguments of q"""
    out = []

    def walk(v):
        if isinstance(v, dict):
            if "$node" in v:
                out.append(v["$node"])
            if "$attr" in v:
                out.append(v["$attr"][0])
            for x in v.values():
                walk(x)
        elif isinstance(v, list):
            for x in v:
                walk(x)

    walk(q)
    return out


def q_label(q):
    t = q["t"]
    if t in ("prop", "call", "fn"):
        return q["name"]
    if t == "userfunc":
        return "userfunc:" + q["name"]
    if t == "path":
        return ".".join(q["names"])
    if t == "op":
        return "op:" + q["name"]
    if t == "item":
        return "item"
    return t


# ---------------------------------------------------------------------------------------------------
# curated query calls and derivations, generated per live object with seeded arguments
# ---------------------------------------------------------------------------------------------------


def _T(*xs):
    return {"$tuple": list(xs)}


def _odd(rng, hi=5):
    return rng.choice([k for k in (1, 3, 5) if k <= hi])


def _frame(o):
    """(native shape, pixel scales) of the mask an object lives on, from plain attributes only (no property of the library is read)"""
    d_ = getattr(o, "__dict__", {})
    m = o if type(o).__name__ in ("Mask2D", "Mask1D") else (d_.get("mask") if d_.get("mask") is not None else d_.get("real_space_mask"))
    arr = getattr(m, "__dict__", {}).get("_array") if m is not None else None
    if arr is None:
        return None
    try:
        npix = int(arr.size - np.count_nonzero(arr))
    except Exception:  # noqa: BLE001
        npix = -1
    return (tuple(arr.shape), tuple(getattr(m, "__dict__", {}).get("pixel_scales") or ()), npix)


def _unit(o):
    """length unit of the frame an object lives on (first pixel scale of the nearest mask found through plain attributes), or 1.0"""
    seen = 0
    todo = [o]
    while todo and seen < 12:
        x = todo.pop(0)
        seen += 1
        f = _frame(x)
        if f and f[1]:
            try:
                return float(f[1][0])
            except Exception:  # noqa: BLE001
                return 1.0
        d = getattr(x, "__dict__", {})
        for k in ("mapper", "mapper_grids", "source_plane_data_grid", "dataset", "grid"):
            if d.get(k) is not None:
                todo.append(d[k])
    return 1.0


_WINDOWS = [(-1.0, 1.5, -1.25, 1.0), (-2.0, 2.0, -2.0, 2.0), (-0.5, 0.75, -0.25, 1.0)]


def _window(rng, obj):
    """one of three zoom windows, in the units of the receiver's frame (x0, x1, y0, y1)"""
    u = _unit(obj)
    return _T(*[v * u for v in rng.choice(_WINDOWS)])


def curated_calls(obj, rng, nodes_by_type, env=None):
    """Candidate query calls (results are values to compare, not new nodes).  Pure function of (obj type/shape, rng)."""
    tn = type(obj).__name__
    out = []
    kshape = _T(_odd(rng), _odd(rng))
    own_frame = _frame(obj)

    def pick(*types):
        """an argument node of one of the types; three times in four one that lives on the receiver's own frame (same native shape) when
        there is one - an argument of another shape mostly exercises the library's error paths"""
        ids = [i for t in types for i in nodes_by_type.get(t, [])]
        if not ids:
            return None
        if env is not None and own_frame is not None and rng.random() < 0.75:
            fr = {i: _frame(env[i]) for i in ids if i in env}
            same = [i for i in ids if fr.get(i) and fr[i][0] == own_frame[0] and fr[i][2] == own_frame[2]] or [i for i in ids if fr.get(i) and fr[i][0] == own_frame[0]]
            if same:
                return rng.choice(same)
        return rng.choice(ids)

    def pick_where(pred, *types):
        ids = [i for t in types for i in nodes_by_type.get(t, [])]
        if env is not None:
            good = [i for i in ids if i in env and pred(env[i])]
            if good and rng.random() < 0.8:
                return rng.choice(good)
        return rng.choice(ids) if ids else None

    if tn == "Mask2D":
        out.append({"t": "call", "name": "derive_mask.blurring_from", "kw": {"kernel_shape_native": kshape}})
        out.append({"t": "call", "name": "resized_from", "kw": {"new_shape": _T(rng.randrange(1, 11), rng.randrange(1, 11))}})
        out.append({"t": "call", "name": "rescaled_from", "kw": {"rescale_factor": rng.choice([0.5, 2.0])}})
        out.append({"t": "call", "name": "geometry.pixel_coordinates_2d_from", "kw": {"scaled_coordinates_2d": _T(rng.uniform(-3, 3), rng.uniform(-3, 3))}})
    if tn == "Mask2D":
        g = pick("Grid2D")
        if g:
            for nm in ("grid_pixels_2d_from", "grid_pixel_centres_2d_from", "grid_pixel_indexes_2d_from"):
                out.append({"t": "call", "name": "geometry." + nm, "kw": {"grid_scaled_2d": {"$node": g}}})
            out.append({"t": "call", "name": "geometry.grid_scaled_2d_from", "kw": {"grid_pixels_2d": {"$node": g}}})
        out.append({"t": "call", "name": "geometry.scaled_coordinates_2d_from", "kw": {"pixel_coordinates_2d": _T(rng.randrange(0, 6), rng.randrange(0, 6))}})
        out.append({"t": "call", "name": "geometry.scaled_coordinate_2d_to_scaled_at_pixel_centre_from", "kw": {"scaled_coordinate_2d": _T(rng.uniform(-3, 3), rng.uniform(-3, 3))}})
    if tn == "Region2D":
        out.append({"t": "call", "name": "parallel_front_region_from", "kw": {"pixels": _T(0, rng.randrange(1, 3))}})
        out.append({"t": "call", "name": "parallel_trailing_region_from", "kw": {"pixels": _T(0, rng.randrange(1, 3))}})
        out.append({"t": "call", "name": "serial_front_region_from", "kw": {"pixels": _T(0, rng.randrange(1, 3))}})
        out.append({"t": "call", "name": "serial_trailing_region_from", "kw": {"pixels": _T(0, rng.randrange(1, 3))}})
        out.append({"t": "call", "name": "parallel_full_region_from", "kw": {"shape_2d": _T(rng.randrange(4, 9), rng.randrange(4, 9))}})
        out.append({"t": "call", "name": "serial_x_front_range_from", "kw": {"pixels": _T(0, rng.randrange(1, 3))}})
    if tn == "Layout2D":
        a = pick("Array2D")
        if a:
            for nm in ("extract_parallel_overscan_array_2d_from", "extract_serial_overscan_array_from", "parallel_overscan_binned_array_1d_from",
                       "serial_overscan_binned_array_1d_from", "original_orientation_from"):
                out.append({"t": "call", "name": nm, "kw": {"array": {"$node": a}}})
        out.append({"t": "call", "name": "new_rotated_from", "kw": {"roe_corner": _T(rng.choice([0, 1]), rng.choice([0, 1]))}})
        r = pick("Region2D")
        if r:
            out.append({"t": "call", "name": "layout_extracted_from", "kw": {"extraction_region": {"$node": r}}})
    if tn in ("Array2D", "Kernel2D"):
        out.append({"t": "call", "name": "zoomed_around_mask", "kw": {"buffer": rng.randrange(0, 3)}})
        out.append({"t": "call", "name": "extent_of_zoomed_array", "kw": {"buffer": rng.randrange(0, 3)}})
        out.append({"t": "call", "name": "resized_from", "kw": {"new_shape": _T(rng.randrange(1, 11), rng.randrange(1, 11))}})
        out.append({"t": "call", "name": "padded_before_convolution_from", "kw": {"kernel_shape": kshape}})
        out.append({"t": "call", "name": "trimmed_after_convolution_from", "kw": {"kernel_shape": kshape}})
    if tn == "Kernel2D":
        a = pick("Array2D")
        if a:
            out.append({"t": "call", "name": "convolved_array_from", "kw": {"array": {"$node": a}}})
        m = pick("Mask2D")
        if a and m:
            out.append({"t": "call", "name": "convolved_array_with_mask_from", "kw": {"array": {"$attr": [a, "native"]}, "mask": {"$node": m}}})
    if tn == "Grid2D":
        # "programs": a user function evaluated through the grid's over-sampler (seeded centre / scale: different functions
        # have different per-pixel convergence in the iterative scheme)
        n_user = 6 if type(getattr(obj, "over_sampling", None)).__name__ == "OverSamplingIterate" else 2
        for _ in range(n_user):
            out.append({"t": "userfunc", "name": "image_2d_from", "centre": [rng.choice([0.05, 2.05, -1.1, 0.5]), rng.choice([0.05, -1.95, 0.7])], "scale": rng.choice([0.3, 0.6, 1.5])})
        out.append({"t": "userfunc", "name": "deflections_yx_2d_from", "centre": [rng.uniform(-1, 1), rng.uniform(-1, 1)], "scale": rng.choice([0.5, 1.0])})
        c = _T(rng.uniform(-2, 2), rng.uniform(-2, 2))
        out.append({"t": "call", "name": "grid_with_coordinates_within_distance_removed_from",
                    "kw": {"coordinates": {"$list": [_T(rng.uniform(-2, 2), rng.uniform(-2, 2)) for _ in range(rng.randrange(1, 3))]}, "distance": rng.choice([0.6, 1.1, 2.0])}})
        out.append({"t": "call", "name": "distances_to_coordinate_from", "kw": {"coordinate": c}})
        out.append({"t": "call", "name": "squared_distances_to_coordinate_from", "kw": {"coordinate": c}})
        out.append({"t": "call", "name": "blurring_grid_via_kernel_shape_from", "kw": {"kernel_shape_native": kshape}})
        out.append({"t": "call", "name": "padded_grid_from", "kw": {"kernel_shape_native": kshape}})
        out.append({"t": "call", "name": "grid_2d_radial_projected_from", "kw": {"centre": c, "angle": rng.choice([0.0, 30.0, 90.0])}})
        out.append({"t": "call", "name": "grid_2d_radial_projected_shape_slim_from", "kw": {"centre": c}})
        out.append({"t": "call", "name": "subtracted_from", "kw": {"offset": _T(rng.uniform(-1, 1), rng.uniform(-1, 1))}})
        out.append({"t": "call", "name": "extent_with_buffer_from", "kw": {"buffer": 1e-8}})
        if rng.random() < 0.1:
            out.append({"t": "call", "name": "trimmed_after_convolution_from", "kw": {"kernel_shape": kshape}})  # raises NotImplementedError by design
    if tn in ("OverSamplerUniform", "OverSamplerIterate"):
        a = pick("Array2D")
        pass
    if tn == "BorderRelocator":
        g = pick("Grid2D", "Grid2DIrregular")
        if g:
            out.append({"t": "call", "name": "relocated_grid_from", "kw": {"grid": {"$node": g}}})
        g2 = pick("Grid2DIrregular")
        if g and g2:
            out.append({"t": "call", "name": "relocated_mesh_grid_from", "kw": {"grid": {"$node": g}, "mesh_grid": {"$node": g2}}})
    if tn == "Convolver":
        a = pick("Array2D")
        if a:
            out.append({"t": "call", "name": "convolve_image_no_blurring", "kw": {"image": {"$node": a}}})
        try:
            kshape = [int(k) for k in obj.kernel.shape_native]
        except Exception:  # noqa: BLE001
            kshape = None
        if kshape:
            out.append({"t": "call", "name": "convolve_image", "kw": {
                "image": {"$array_on": [{"$selfprop": "mask"}, rng.randrange(0, 9)]},
                "blurring_image": {"$array_on": [{"$call": [{"$selfprop": "mask"}, "derive_mask.blurring_from", {"kernel_shape_native": _T(*kshape)}]}, rng.randrange(0, 9)]}}})
        npix = None
        try:
            npix = int(obj.mask.pixels_in_mask)
        except Exception:  # noqa: BLE001
            npix = None
        if npix:
            cols = rng.randrange(1, 4)
            out.append({"t": "call", "name": "convolve_mapping_matrix", "kw": {"mapping_matrix": {"$arr": [prng.fhex(rng.uniform(0, 1)) for _ in range(npix * cols)], "shape": [npix, cols]}}})
    if tn in ("Mesh2DRectangular", "Mesh2DDelaunay"):
        out.append({"t": "call", "name": "interpolation_grid_from", "kw": {"shape_native": _T(rng.randrange(2, 6), rng.randrange(2, 6))}})
    if tn in ("Mesh2DRectangular", "Mesh2DDelaunay", "Mesh2DVoronoi"):
        # few distinct (shape, extent) arguments, so that the same question recurs on a mesh, on its parent and on meshes derived from it
        try:
            n = int(obj.pixels)
        except Exception:  # noqa: BLE001
            n = 0
        if n:
            kw = {"values": {"$arr": [prng.fhex(float((7 * i) % 5) + 0.25 * i) for i in range(n)]}, "shape_native": rng.choice([_T(3, 3), _T(4, 5)])}
            if rng.random() < 0.4:
                kw["extent"] = _window(rng, obj)
            out.append({"t": "call", "name": "interpolated_array_from", "kw": kw})
    if tn in ("Array2D", "Kernel2D"):
        # the non-seeded preprocessing helpers: pure functions of their arguments
        out.append({"t": "fn", "name": "preprocess.noise_map_via_weight_map_from", "kw": {"weight_map": {"$abs": {"$self": True}}}})
        out.append({"t": "fn", "name": "preprocess.noise_map_via_weight_map_from", "kw": {"weight_map": {"$self": True}}})
        out.append({"t": "fn", "name": "preprocess.noise_map_via_inverse_noise_map_from", "kw": {"inverse_noise_map": {"$self": True}}})
        out.append({"t": "fn", "name": "preprocess.noise_map_via_inverse_noise_map_from", "kw": {"inverse_noise_map": {"$abs": {"$self": True}}}})
        out.append({"t": "fn", "name": "preprocess.array_eps_to_counts", "kw": {"array_eps": {"$self": True}, "exposure_time_map": {"$const_like": [{"$self": True}, 300.0]}}})
        out.append({"t": "fn", "name": "preprocess.edges_from", "kw": {"image": {"$self": True}, "no_edges": rng.randrange(1, 3)}})
        out.append({"t": "fn", "name": "preprocess.background_noise_map_via_edges_from", "kw": {"image": {"$self": True}, "no_edges": 1}})
        out.append({"t": "fn", "name": "preprocess.array_with_new_shape", "kw": {"array": {"$self": True}, "new_shape": _T(rng.randrange(1, 9), rng.randrange(1, 9))}})
        out.append({"t": "fn", "name": "preprocess.noise_map_with_signal_to_noise_limit_from", "kw": {"data": {"$self": True}, "noise_map": {"$const_like": [{"$self": True}, 0.5]}, "signal_to_noise_limit": rng.choice([0.5, 2.0])}})
    if tn == "Kernel2D":
        out.append({"t": "fn", "name": "preprocess.psf_with_odd_dimensions_from", "kw": {"psf": {"$self": True}}})
        out.append({"t": "call", "name": "rescaled_with_odd_dimensions_from", "kw": {"rescale_factor": rng.choice([0.5, 2.0]), "normalize": rng.random() < 0.5}})
    if tn in ("Array2D",):
        # seeded noise helpers (I5): the result must not depend on the prior state of the global generator
        seed = rng.randrange(0, 1000)
        out.append({"t": "fn", "name": "preprocess.data_with_gaussian_noise_added", "kw": {"data": {"$self": True}, "sigma": rng.choice([0.1, 1.0]), "seed": seed}})
        out.append({"t": "fn", "name": "preprocess.gaussian_noise_via_shape_and_sigma_from", "kw": {"shape": _T(rng.randrange(1, 6)), "sigma": 1.0, "seed": seed}})
        e = pick("Array2D")
        if e:
            out.append({"t": "fn", "name": "preprocess.data_eps_with_poisson_noise_added", "kw": {"data_eps": {"$abs": {"$self": True}}, "exposure_time_map": {"$const_like": [{"$self": True}, 300.0]}, "seed": seed}})
    if tn in ("Overlay", "Hilbert", "KMeans"):
        # the Hilbert mesh asks for a circular mask with one pixel scale: prefer square frames with equal scales
        def squareish(o):
            f = _frame(o)
            return bool(f and len(f[0]) == 2 and f[0][0] == f[0][1] and len(f[1]) == 2 and f[1][0] == f[1][1])

        m = pick_where(squareish, "Mask2D")
        mf_ = _frame(env[m]) if (env is not None and m in env) else None
        a = pick_where(lambda o: mf_ is not None and (_frame(o) or (None,))[0] == mf_[0], "Array2D")
        if m:
            out.append({"t": "call", "name": "image_plane_mesh_grid_from", "kw": {"mask": {"$node": m}, "adapt_data": {"$node": a} if a else None}})
            out.append({"t": "call", "name": "image_plane_mesh_grid_from", "kw": {"mask": {"$node": m}, "adapt_data": {"$abs": {"$node": a}} if a else None}})
    if tn == "TransformerDFT":
        a = pick("Array2D")
        v = pick("Visibilities")
        if a:
            out.append({"t": "call", "name": "visibilities_from", "kw": {"image": {"$node": a}}})
        if v:
            out.append({"t": "call", "name": "image_from", "kw": {"visibilities": {"$node": v}}})
        try:
            npix = int(obj.real_space_mask.pixels_in_mask)
        except Exception:  # noqa: BLE001
            npix = 0
        if npix:
            cols = rng.randrange(1, 4)
            out.append({"t": "call", "name": "transform_mapping_matrix", "kw": {"mapping_matrix": {"$arr": [prng.fhex(rng.uniform(0, 1)) for _ in range(npix * cols)], "shape": [npix, cols]}}})
    if tn in ("CoordinateArrayTriangles", "ArrayTriangles"):
        out.append({"t": "call", "name": "containing_indices", "kw": {"shape": {"$shape": ["Circle", rng.uniform(-1, 1), rng.uniform(-1, 1), rng.choice([0.3, 1.0, 2.5])]}}})
    if tn == "Preloads":
        fits = nodes_by_type.get("FitStub", [])
        if len(fits) >= 2:
            f0, f1 = rng.sample(fits, 2)
            for nm in ("set_w_tilde_imaging", "set_relocated_grid", "set_mapper_list", "set_operated_mapping_matrix_with_preloads", "set_linear_func_inversion_dicts",
                       "set_curvature_matrix", "set_regularization_matrix_and_term"):
                out.append({"t": "call", "name": nm, "kw": {"fit_0": {"$node": f0}, "fit_1": {"$node": f1}}})
    if tn in ("MapperRectangular", "MapperDelaunay"):
        has_adapt = getattr(getattr(obj, "__dict__", {}).get("mapper_grids"), "__dict__", {}).get("adapt_data") is not None
        if has_adapt or rng.random() < 0.2:
            out.append({"t": "call", "name": "pixel_signals_from", "kw": {"signal_scale": rng.choice([0.5, 1.0, 2.0])}})
        a = pick("Array2D")
        if a:
            out.append({"t": "call", "name": "mapped_to_source_from", "kw": {"array": {"$node": a}}})
        out.append({"t": "call", "name": "data_pixel_area_for_pix_from", "kw": {}})
        out.append({"t": "call", "name": "data_weight_total_for_pix_from", "kw": {}})
        n = getattr(obj, "params", None)
        if isinstance(n, int) and n > 0:
            vals = [prng.fhex(rng.uniform(0.0, 2.0)) for _ in range(n)]
            out.append({"t": "call", "name": "interpolated_array_from", "kw": {"values": {"$arr": vals}, "shape_native": _T(rng.randrange(2, 6), rng.randrange(2, 6))}})
            out.append({"t": "call", "name": "interpolated_array_from", "kw": {"values": {"$arr": vals}, "shape_native": rng.choice([_T(3, 3), _T(4, 5)]), "extent": _window(rng, obj)}})
        if isinstance(n, int) and n > 1:
            # groups of several mesh pixels, flat and nested (the forms the docstring describes)
            grp = [rng.randrange(n) for _ in range(rng.randrange(2, 4))]
            out.append({"t": "call", "name": "pix_indexes_for_slim_indexes", "kw": {"pix_indexes": grp}})
            out.append({"t": "call", "name": "pix_indexes_for_slim_indexes", "kw": {"pix_indexes": [grp, [rng.randrange(n)], [rng.randrange(n) for _ in range(2)]]}})
        if getattr(obj, "regularization", None) is not None:
            out.append({"t": "call", "name": "regularization.regularization_matrix_from", "kw": {"linear_obj": {"$self": True}}})
            out.append({"t": "call", "name": "regularization.regularization_weights_from", "kw": {"linear_obj": {"$self": True}}})
    if tn in ("InversionImagingMapping", "InversionImagingWTilde", "InversionInterferometerMapping"):
        nobj = len(getattr(obj, "linear_obj_list", []))
        if nobj:
            out.append({"t": "call", "name": "regularization_weights_from", "kw": {"index": rng.randrange(nobj)}})
        out.append({"t": "call", "name": "source_quantity_dict_from", "kw": {"source_quantity": {"$selfprop": "reconstruction"}}})
    if tn == "Convolver":
        pass
    if tn == "MapperValued":
        out.append({"t": "call", "name": "max_pixel_list_from", "kw": {"total_pixels": rng.randrange(1, 4), "filter_neighbors": rng.random() < 0.5}})
        out.append({"t": "call", "name": "mapped_reconstructed_image_from", "kw": {}})
        out.append({"t": "call", "name": "magnification_via_mesh_from", "kw": {}})
        out.append({"t": "call", "name": "interpolated_array_from", "kw": {"shape_native": _T(rng.randrange(2, 6), rng.randrange(2, 6))}})
        out.append({"t": "call", "name": "magnification_via_interpolation_from", "kw": {"shape_native": _T(rng.randrange(2, 6), rng.randrange(2, 6))}})
        # zoom windows: few shapes and three windows (in the frame's own units), so that the same and nearly the same request recur
        out.append({"t": "call", "name": "interpolated_array_from", "kw": {"shape_native": rng.choice([_T(3, 3), _T(4, 5)]), "extent": _window(rng, obj)}})
        out.append({"t": "call", "name": "magnification_via_interpolation_from", "kw": {"shape_native": rng.choice([_T(3, 3), _T(4, 5)]), "extent": _window(rng, obj)}})
    if tn == "SimulatorImaging":
        a = pick("Array2D")
        if a:
            out.append({"t": "call", "name": "via_image_from", "kw": {"image": {"$node": a}}})
    if tn in ("Visibilities", "VisibilitiesNoiseMap", "Array1D", "Grid2DIrregular", "ArrayIrregular", "VectorYX2D"):
        pass
    if tn == "Grid2DIrregular":
        c = _T(rng.uniform(-2, 2), rng.uniform(-2, 2))
        out.append({"t": "call", "name": "distances_to_coordinate_from", "kw": {"coordinate": c}})
        out.append({"t": "call", "name": "extent_with_buffer_from", "kw": {"buffer": 1e-8}})
    if tn in ("Array2D", "Kernel2D", "Grid2D", "VectorYX2D", "Array1D", "Grid1D", "Grid2DIrregular", "ArrayIrregular", "Visibilities", "VisibilitiesNoiseMap",
              "Mesh2DRectangular", "Mesh2DDelaunay", "Mesh2DVoronoi", "Mask2D", "Mask1D"):
        # the reductions every structure forwards to its array
        out.append({"t": "call", "name": rng.choice(["max", "min", "sum", "all"]), "kw": {}})
    if tn in ("Grid2D", "Grid2DIrregular"):
        g = pick(tn)
        if g:
            out.append({"t": "call", "name": "grid_2d_via_deflection_grid_from", "kw": {"deflection_grid": {"$node": g}}})
    if tn == "Grid2DIrregular":
        g = pick("Grid2DIrregular")
        if g:
            out.append({"t": "call", "name": "grid_of_closest_from", "kw": {"grid_pair": {"$node": g}}})
    if tn in ("MapperRectangular", "MapperDelaunay"):
        n = getattr(obj, "params", None)
        if isinstance(n, int) and n > 0:
            vals = [prng.fhex(float((3 * i) % 7) - 1.0) for i in range(n)]
            out.append({"t": "call", "name": "extent_from", "kw": {"values": {"$arr": vals}, "zoom_to_brightest": rng.random() < 0.7, "zoom_percent": rng.choice([None, 0.5])}})
    if tn in ("InversionImagingMapping", "InversionImagingWTilde", "InversionInterferometerMapping"):
        cls = rng.choice(["autoarray.inversion.pixelization.mappers.abstract.AbstractMapper", "autoarray.inversion.regularization.abstract.AbstractRegularization",
                          "autoarray.inversion.linear_obj.func_list.AbstractLinearObjFuncList", "autoarray.inversion.linear_obj.linear_obj.LinearObj"])
        out.append({"t": "call", "name": rng.choice(["has", "total", "param_range_list_from"]), "kw": {"cls": {"$cls": cls}}})
    if tn in ("Hilbert", "KMeans"):
        a = pick("Array2D")
        if a:
            out.append({"t": "call", "name": "weight_map_from", "kw": {"adapt_data": {"$node": a}}})
            out.append({"t": "call", "name": "weight_map_from", "kw": {"adapt_data": {"$abs": {"$node": a}}}})
    if tn in ("OverSamplingUniform", "OverSamplingIterate"):
        m = pick("Mask2D")
        if m:
            out.append({"t": "call", "name": "over_sampler_from", "kw": {"mask": {"$node": m}}})
    if tn == "Convolver":
        a = pick("Array2D")
        if a:
            out.append({"t": "call", "name": "convolve_image_no_blurring_interpolation", "kw": {"image": {"$node": a}}})
    # the classmethod constructors, with the receiver's own geometry as arguments ("repeating a computation with equal inputs gives
    # identical results"): pure functions of their arguments whatever was built or read before
    geo = {"shape_native": {"$selfprop": "shape_native"}, "pixel_scales": {"$selfprop": "pixel_scales"}}
    if tn in ("Array1D", "Grid1D", "Mask1D"):
        out.append({"t": "fn", "name": "Grid1D.uniform", "kw": dict(geo, origin={"$selfprop": "origin"})})
        out.append({"t": "fn", "name": "Grid1D.uniform", "kw": dict(geo)})
        out.append({"t": "fn", "name": "Grid1D.uniform_from_zero", "kw": dict(geo)})
        out.append({"t": "fn", "name": "Array1D.full", "kw": dict(geo, fill_value=rng.choice([0.0, 1.5, -2.0]), origin={"$selfprop": "origin"})})
    if tn in ("Array2D", "Grid2D", "Mask2D", "Kernel2D", "VectorYX2D"):
        out.append({"t": "fn", "name": "Grid2D.uniform", "kw": dict(geo, origin={"$selfprop": "origin"})})
        out.append({"t": "fn", "name": rng.choice(["Array2D.zeros", "Array2D.ones"]), "kw": dict(geo, origin={"$selfprop": "origin"})})
        out.append({"t": "fn", "name": "Array2D.full", "kw": dict(geo, fill_value=rng.choice([0.0, 1.5, -2.0]))})
        out.append({"t": "fn", "name": "Mask2D.all_false", "kw": dict(geo, origin={"$selfprop": "origin"}, invert=rng.random() < 0.3)})
        out.append({"t": "fn", "name": "Grid2D.from_extent", "kw": {"extent": _T(-1.0, 1.5, -1.25, 1.0), "shape_native": {"$selfprop": "shape_native"}}})
        out.append({"t": "fn", "name": "Grid2D.bounding_box", "kw": {"bounding_box": [-1.0, 1.5, -1.25, 1.0], "shape_native": {"$selfprop": "shape_native"}, "buffer_around_corners": rng.random() < 0.5}})
        out.append({"t": "fn", "name": "Kernel2D.from_gaussian", "kw": {"shape_native": kshape, "pixel_scales": {"$selfprop": "pixel_scales"}, "sigma": rng.choice([0.5, 1.0, 2.0]), "normalize": rng.random() < 0.5}})
    if tn == "Mask2D":
        out.append({"t": "fn", "name": "Grid2D.blurring_grid_from", "kw": {"mask": {"$self": True}, "kernel_shape_native": kshape}})
        out.append({"t": "fn", "name": "Grid2D.from_mask", "kw": {"mask": {"$self": True}}})
        out.append({"t": "fn", "name": "Grid2DIrregular.from_pixels_and_mask", "kw": {"pixels": [[0, 0], [1, 1]], "mask": {"$self": True}}})
    if tn in ("Visibilities", "VisibilitiesNoiseMap"):
        out.append({"t": "fn", "name": "Visibilities.full", "kw": {"fill_value": 1.0, "shape_slim": {"$tuple": [{"$selfprop": "shape_slim"}]}}})
    if tn in ("Imaging",):
        pass
    return [q for q in out if q is not None]


def derivations(obj, rng, nodes_by_type):
    """Candidate derivations: each yields a NEW node (arithmetic, slicing, copying, masking, trimming, sub-objects)."""
    tn = type(obj).__name__
    out = []

    def pick(*types):
        ids = [i for t in types for i in nodes_by_type.get(t, [])]
        return rng.choice(ids) if ids else None

    scalar = rng.choice([2.0, 0.5, -1.5, 3.0])
    structures = ("Array2D", "Grid2D", "VectorYX2D", "Kernel2D", "Array1D", "Grid1D", "Visibilities", "VisibilitiesNoiseMap", "Grid2DIrregular", "ArrayIrregular", "Mask2D", "Mask1D")
    if tn in structures:
        if not tn.startswith("Mask"):
            for name in ("mul", "add", "sub", "truediv", "rsub"):
                out.append({"t": "op", "name": name, "other": scalar})
            out.append({"t": "op", "name": "pow", "other": rng.choice([2, 2.0, 0.5])})
            out.append({"t": "op", "name": "neg"})
            out.append({"t": "op", "name": "abs"})
            out.append({"t": "call", "name": "sqrt", "kw": {}})
            same = pick(tn)
            if same:
                out.append({"t": "op", "name": rng.choice(["add", "sub", "mul"]), "other": {"$node": same}})
        out.append({"t": "copy"})
        out.append({"t": "deepcopy"})
        out.append({"t": "call", "name": "copy", "kw": {}})
        if not tn.startswith(("Mask", "Visibilities")):
            out.append({"t": "call", "name": "astype", "kw": {"dtype": rng.choice(["float32", "float64"])}})
        n = 0
        try:
            n = len(obj)
        except Exception:
            n = 0
        if n >= 2 and tn in ("Visibilities", "VisibilitiesNoiseMap", "Grid2DIrregular", "ArrayIrregular", "Array1D"):
            a = rng.randrange(0, n - 1)
            out.append({"t": "item", "key": [a, rng.randrange(a + 1, n + 1)]})
    if tn in ("Mesh2DRectangular", "Mesh2DDelaunay", "Mesh2DVoronoi"):
        # a mesh is a structure too: shifted / scaled / copied meshes (a source plane moved or magnified)
        for name in ("mul", "add", "sub"):
            out.append({"t": "op", "name": name, "other": rng.choice([2.0, 0.5, 0.3, -0.4])})
        out.append({"t": "op", "name": "neg"})
        out.append({"t": "copy"})
        out.append({"t": "deepcopy"})
    if tn in ("Array2D", "Kernel2D", "Grid2D", "VectorYX2D", "Array1D", "Grid1D"):
        out.append({"t": "prop", "name": "slim"})
        out.append({"t": "prop", "name": "native"})
    if tn in ("Array2D", "Kernel2D", "VectorYX2D"):
        m = pick("Mask2D")
        if m:
            out.append({"t": "call", "name": "apply_mask", "kw": {"mask": {"$node": m}}})
    if tn in ("Array2D", "Kernel2D"):
        k = _T(_odd(rng), _odd(rng))
        out.append({"t": "call", "name": "resized_from", "kw": {"new_shape": _T(rng.randrange(1, 11), rng.randrange(1, 11))}})
        out.append({"t": "call", "name": "padded_before_convolution_from", "kw": {"kernel_shape": k}})
        out.append({"t": "call", "name": "trimmed_after_convolution_from", "kw": {"kernel_shape": k}})
        out.append({"t": "call", "name": "zoomed_around_mask", "kw": {"buffer": rng.randrange(0, 3)}})
    if tn == "Kernel2D":
        out.append({"t": "prop", "name": "normalized"})
    if tn == "Grid2D":
        out.append({"t": "call", "name": "subtracted_from", "kw": {"offset": _T(rng.uniform(-1, 1), rng.uniform(-1, 1))}})
        out.append({"t": "call", "name": "padded_grid_from", "kw": {"kernel_shape_native": _T(_odd(rng), _odd(rng))}})
        out.append({"t": "call", "name": "blurring_grid_via_kernel_shape_from", "kw": {"kernel_shape_native": _T(_odd(rng), _odd(rng))}})
        out.append({"t": "prop", "name": "flipped"})
        out.append({"t": "prop", "name": "in_radians"})
        out.append({"t": "prop", "name": "over_sampler"})
    if tn == "Mask2D":
        out.append({"t": "call", "name": "invert", "kw": {}})
        # masks combined and cut the way arrays are: a union / intersection with another mask, a window of rows and columns
        other = pick("Mask2D")
        if other:
            out.append({"t": "op", "name": rng.choice(["add", "mul"]), "other": {"$node": other}})
        try:
            hh, ww = (int(x) for x in obj.shape_native)
        except Exception:  # noqa: BLE001
            hh = ww = 0
        if hh >= 3 and ww >= 3:
            y0, x0 = rng.randrange(0, 2), rng.randrange(0, 2)
            out.append({"t": "item", "key": [[y0, hh - rng.randrange(0, 2)], [x0, ww - rng.randrange(0, 2)]]})
        out.append({"t": "call", "name": "resized_from", "kw": {"new_shape": _T(rng.randrange(1, 11), rng.randrange(1, 11))}})
        out.append({"t": "call", "name": "rescaled_from", "kw": {"rescale_factor": rng.choice([0.5, 2.0])}})
        for p in ("derive_mask", "derive_indexes", "derive_grid", "geometry"):
            out.append({"t": "prop", "name": p})
        out.append({"t": "call", "name": "derive_mask.blurring_from", "kw": {"kernel_shape_native": _T(_odd(rng), _odd(rng))}})
    if tn == "Imaging":
        m = pick("Mask2D")
        if m:
            out.append({"t": "call", "name": "apply_mask", "kw": {"mask": {"$node": m}}})
            out.append({"t": "call", "name": "apply_noise_scaling", "kw": {"mask": {"$node": m}, "noise_value": rng.choice([1e8, 50.0])}})
            out.append({"t": "call", "name": "apply_noise_scaling", "kw": {"mask": {"$node": m}, "signal_to_noise_value": 2.0, "should_zero_data": False}})
        out.append({"t": "call", "name": "trimmed_after_convolution_from", "kw": {"kernel_shape": _T(_odd(rng, 3), _odd(rng, 3))}})
        out.append({"t": "call", "name": "apply_over_sampling", "kw": {"over_sampling": {"$over_dataset": {"uniform": rng.randrange(1, 3), "pixelization": rng.randrange(1, 3)}}}})
        out.append({"t": "call", "name": "apply_over_sampling", "kw": {"over_sampling": {"$over_dataset": {rng.choice(["uniform", "non_uniform", "pixelization"]): rng.randrange(1, 4)}}}})
        out.append({"t": "call", "name": "apply_over_sampling", "kw": {}})
        rq = pick("OverSamplingDataset")
        if rq:
            out.append({"t": "call", "name": "apply_over_sampling", "kw": {"over_sampling": {"$node": rq}}})
        for p in ("grids", "convolver", "w_tilde", "data", "noise_map", "psf", "mask"):
            out.append({"t": "prop", "name": p})
    if tn == "Interferometer":
        out.append({"t": "call", "name": "apply_over_sampling", "kw": {"over_sampling": {"$over_dataset": {"uniform": rng.randrange(1, 3), "pixelization": rng.randrange(1, 3)}}}})
        out.append({"t": "call", "name": "apply_over_sampling", "kw": {"over_sampling": {"$over_dataset": {rng.choice(["uniform", "non_uniform", "pixelization"]): rng.randrange(1, 4)}}}})
        out.append({"t": "call", "name": "apply_over_sampling", "kw": {}})
        rq = pick("OverSamplingDataset")
        if rq:
            out.append({"t": "call", "name": "apply_over_sampling", "kw": {"over_sampling": {"$node": rq}}})
        for p in ("grids", "transformer", "data", "noise_map", "dirty_image", "dirty_noise_map"):
            out.append({"t": "prop", "name": p})
    if tn == "GridsDataset":
        for p in ("uniform", "non_uniform", "pixelization", "blurring", "border_relocator"):
            out.append({"t": "prop", "name": p})
    if tn in ("MapperRectangular", "MapperDelaunay"):
        for p in ("mapper_grids", "source_plane_mesh_grid", "source_plane_data_grid", "over_sampler", "regularization"):
            out.append({"t": "prop", "name": p})
    if tn == "MapperGrids":
        for p in ("source_plane_data_grid", "source_plane_mesh_grid", "image_plane_mesh_grid", "adapt_data"):
            out.append({"t": "prop", "name": p})
    if tn in ("InversionImagingMapping", "InversionImagingWTilde", "InversionInterferometerMapping"):
        for p in ("mapped_reconstructed_data", "mapped_reconstructed_image", "data", "noise_map"):
            out.append({"t": "prop", "name": p})
    if tn == "FitStub":
        for p in ("residual_map", "chi_squared_map", "normalized_residual_map", "model_data", "grids", "signal_to_noise_map"):
            out.append({"t": "prop", "name": p})
    if tn == "SimulatorImaging":
        a = pick("Array2D")
        if a:
            out.append({"t": "call", "name": "via_image_from", "kw": {"image": {"$node": a}}})
    if tn in ("CoordinateArrayTriangles", "ArrayTriangles"):
        out.append({"t": "call", "name": "up_sample", "kw": {}})
        out.append({"t": "call", "name": "neighborhood", "kw": {}})
        n = 0
        try:
            n = len(obj.triangles)
        except Exception:  # noqa: BLE001
            n = 0
        if n >= 1:
            out.append({"t": "call", "name": "for_indexes", "kw": {"indexes": {"$ints": sorted(rng.sample(range(n), rng.randrange(1, min(n, 4) + 1)))}}})
    return out
