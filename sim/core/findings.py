"""
known_findings.json (committed, never written at run time).

Entry: {property, id, status: "open"|"fixed", commit?, signature: {kind, target_type, quantity, condition?}, what}
Matching is by signature; a "fixed" entry suppresses nothing.  Signature fields may be a string, a list of
alternatives, or "*".  `condition` is a dict of key -> allowed value(s) matched against violation["condition"].
"""
import json
import os

from .boot import VERIF

PATH = os.path.join(VERIF, "known_findings.json")


def load(path=PATH):
    if not os.path.exists(path):
        return []
    with open(path) as f:
        data = json.load(f)
    return data.get("findings", [])


def _field_ok(want, got):
    if want is None or want == "*":
        return True
    if isinstance(want, list):
        return got in want
    return want == got


def match(violation: dict, findings, property_id: str):
    """-> the open finding this violation is an instance of, or None"""
    for f in findings:
        if f.get("status") != "open" or f.get("property") != property_id:
            continue
        sig = f.get("signature", {})
        if not _field_ok(sig.get("kind"), violation.get("kind")):
            continue
        if not _field_ok(sig.get("target_type"), violation.get("target_type")):
            continue
        if not _field_ok(sig.get("quantity"), violation.get("quantity")):
            continue
        cond = sig.get("condition") or {}
        vcond = violation.get("condition") or {}
        if all(_field_ok(v, vcond.get(k)) for k, v in cond.items()):
            return f
    return None


def violation_class(v: dict):
    return (v.get("property"), v.get("kind"), v.get("target_type"), v.get("quantity"))
