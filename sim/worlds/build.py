"""
Worlds are data (DESIGN 3.4): a recipe is a JSON-able list of node specs; `World.add(spec)` turns one spec into a
live library object, constructing it ONLY from fresh copies of the raw arrays stored in the spec and from
other nodes.  Builders never borrow a value from another node through a cached property.

The same code builds the shared, history-laden graph of the system-under-test timeline and the pristine twins
of the reference executor (a twin = the construction sub-DAG of one node rebuilt from raw bytes).
"""
import copy as _copy

import numpy as np

from sim.core import compare, prng
from sim.worlds import userobjs


def floats(hexlist, shape=None):
    a = np.array([prng.unhex(v) for v in hexlist], dtype=np.float64)
    if shape is not None:
        a = a.reshape(shape)
    return a


def bits(s, shape=None):
    a = np.array([c == "1" for c in s], dtype=bool)
    if shape is not None:
        a = a.reshape(shape)
    return a


class BuildError(Exception):
    pass


class World:
    def __init__(self, profile_clock=None):
        self.env = {}  # id -> live object
        self.specs = {}  # id -> spec
        self.order = []
        self.failed = {}  # id -> exception type name (construction raised)
        self.owned = []  # [node_id, label, array, fingerprint]: caller-owned raw arrays handed to constructors
        self._arg_seq = 0
        self.passed = {}  # node_id -> ids of nodes passed to its constructor

    # -- caller-owned arrays (invariant I1) ---------------------------------------------------------

    def own(self, node_id, label, arr):
        self.owned.append([node_id, label, arr, compare.fingerprint_array(arr), np.array(arr, copy=True)])
        return arr

    @staticmethod
    def _seq_fp(seq, orig):
        """order and identity of the elements of a caller-owned list, relative to what was handed over (deterministic text)"""
        out = []
        for x in seq:
            if hasattr(x, "__dict__") or isinstance(x, np.ndarray):
                out.append("obj%s" % next((i for i, y in enumerate(orig) if y is x), "-new"))
            else:
                out.append(repr(x))
        return "seq[" + ",".join(out) + "]"

    def own_seq(self, node_id, label, seq):
        """a caller-owned LIST handed to a constructor or a query (the list of linear objects, a list of coordinates): the library
        must not reorder, extend or shrink it"""
        saved = list(seq)
        self.owned.append([node_id, label, seq, self._seq_fp(seq, saved), saved])
        return seq

    @staticmethod
    def _obj_fp(obj):
        """state of a caller-owned library OBJECT handed to a call (a request / settings-like object built for that call): its
        attributes one level deep; the text names the attributes only, so that it is the same in every process"""
        from sim.core import seams

        return seams._fast_state(obj)

    @classmethod
    def _state_changed(cls, a, b, prefix=""):
        def is_state(x):
            return isinstance(x, tuple) and len(x) == 2 and isinstance(x[0], str) and isinstance(x[1], tuple) and all(isinstance(i, tuple) and len(i) == 2 for i in x[1])

        if not (is_state(a) and is_state(b)):
            return [prefix or "<value>"] if a != b else []
        da, db = dict(a[1]), dict(b[1])
        out = []
        for k in sorted(set(da) & set(db)):
            if da[k] != db[k]:
                out += cls._state_changed(da[k], db[k], prefix + k + ".") if (is_state(da[k]) and is_state(db[k])) else [prefix + k]
        return [x.rstrip(".") for x in out]

    def own_obj(self, node_id, label, obj):
        self.owned.append([node_id, label, obj, self._obj_fp(obj), None])
        return obj

    def check_owned(self):
        """-> list of (node_id, label) whose caller-owned array / list / object changed since it was handed over"""
        bad = []
        for rec in self.owned:
            node_id, label, arr, fp, saved = rec[:5]
            if isinstance(arr, list):
                now = self._seq_fp(arr, saved)
            elif isinstance(arr, np.ndarray):
                now = compare.fingerprint_array(arr)
            else:
                now = self._obj_fp(arr)
                if now != fp:
                    # only attributes that were there when the object was handed over and now hold another value: one that APPEARS
                    # later is a lazy cache of the library's own (legal), as for nodes
                    changed = self._state_changed(fp, now)
                    rec[3] = now  # reported once
                    if changed:
                        bad.append((node_id, label, "attributes as handed over", "changed: " + ",".join(changed), rec))
                continue
            if now != fp:
                bad.append((node_id, label, fp, now, rec))
        return bad

    def release_args(self):
        """
        A caller that hands a temporary to a query (a freshly made array, list or request object) usually lets go of it afterwards.
        Every second argument record is released once the event it belonged to has been audited, so that its memory really is
        freed and later allocations can land on the same address - state keyed on `id()` of an argument only misbehaves then.
        The other half stays alive (and audited) for the rest of the run, as a caller that keeps its arrays would have it.
        """
        keep = []
        n = 0
        for rec in self.owned:
            if isinstance(rec[1], str) and rec[1].startswith("arg:"):
                n += 1
                if len(rec) == 5:
                    rec.append(self._arg_seq)
                    self._arg_seq += 1
                if rec[5] % 2 == 1:
                    continue
            keep.append(rec)
        self.owned = keep

    @staticmethod
    def restore_owned(rec):
        """Undo a mutation of a caller-owned array (used only after a listed KNOWN finding, so that the rest of the run
        explores from the state the property promises instead of cascading from the known defect)."""
        if isinstance(rec[2], list):
            rec[2][:] = rec[4]
        elif isinstance(rec[2], np.ndarray):
            rec[2][...] = rec[4]

    # -- construction -------------------------------------------------------------------------------

    def deps(self, spec):
        out = []

        def walk(v):
            if isinstance(v, dict):
                if "$node" in v:
                    out.append(v["$node"])
                if "$attr" in v:
                    out.append(v["$attr"][0])
                for x in v.values():
                    walk(x)
            elif isinstance(v, list):
                for x in v:
                    walk(x)

        for k, v in spec.items():
            if k in ("id", "kind"):
                continue
            walk(v)
        return out

    def closure(self, specs_by_id, node_id):
        """ids of the construction sub-DAG of node_id, in build order"""
        seen = []

        def visit(i):
            if i in seen:
                return
            for d in self.deps(specs_by_id[i]):
                if d in specs_by_id:
                    visit(d)
            seen.append(i)

        visit(node_id)
        return seen

    def add(self, spec):
        """Build one node.  Construction exceptions are recorded, not raised."""
        nid = spec["id"]
        self.specs[nid] = spec
        self.order.append(nid)
        deps = self.deps(spec)
        self.passed[nid] = deps
        for d in deps:
            if d not in self.env:
                self.failed[nid] = "DependencyFailed"
                return None
        try:
            handler = getattr(self, "_b_" + spec["kind"].replace(".", "_"))
            obj = handler(spec)
        except BuildError:
            raise
        except (Exception, SystemExit) as e:  # noqa: BLE001 - a raising constructor is an outcome
            self.failed[nid] = type(e).__name__
            return None
        self.env[nid] = obj
        return obj

    def n(self, ref):
        return self.env[ref["$node"]]

    def opt(self, ref):
        return None if ref is None else self.env[ref["$node"]]

    # -- node kinds -----------------------------------------------------------------------------------

    def _b_mask2d(self, s):
        import autoarray as aa

        arr = self.own(s["id"], "mask", bits(s["bits"], tuple(s["shape"])))
        return aa.Mask2D(mask=arr, pixel_scales=tuple(s["pixel_scales"]), origin=tuple(s.get("origin", (0.0, 0.0))))

    def _b_mask2d_ctor(self, s):
        import autoarray as aa

        kw = {k: (tuple(v) if isinstance(v, list) and k != "pixel_coordinates" else v) for k, v in s["kw"].items()}
        return getattr(aa.Mask2D, s["ctor"])(**kw)

    def _b_kernel_gaussian(self, s):
        import autoarray as aa

        kw = {k: (tuple(v) if isinstance(v, list) else v) for k, v in s["kw"].items()}
        return aa.Kernel2D.from_gaussian(**kw)

    def _b_mask1d(self, s):
        import autoarray as aa

        arr = self.own(s["id"], "mask", bits(s["bits"]))
        return aa.Mask1D(mask=arr, pixel_scales=(float(s["pixel_scales"][0]),), origin=(float(s.get("origin", [0.0])[0]),))

    def _b_array2d(self, s):
        import autoarray as aa

        mask = self.n(s["mask"])
        if s.get("input") == "native":
            vals = floats(s["values"], tuple(mask.shape_native))
        else:
            vals = floats(s["values"])
        vals = self.own(s["id"], "values", vals)
        return aa.Array2D(values=vals, mask=mask, store_native=bool(s.get("store_native", False)))

    def _over(self, o, mask=None):
        import autoarray as aa

        if o is None:
            return None
        if "uniform" in o:
            return aa.OverSamplingUniform(sub_size=int(o["uniform"]))
        if "perpix" in o:
            return aa.OverSamplingUniform(sub_size=aa.Array2D(values=np.array(o["perpix"], dtype=float), mask=mask))
        if "iterate" in o:
            return aa.OverSamplingIterate(fractional_accuracy=o.get("accuracy", 0.9999), sub_steps=list(o["iterate"]))
        raise BuildError(f"over spec {o}")

    def _b_over_request(self, s):
        """An OverSamplingDataset the caller keeps and hands to apply_over_sampling of one dataset after another (slots may be left None)."""
        import autoarray as aa

        return aa.OverSamplingDataset(**{k: aa.OverSamplingUniform(sub_size=int(x)) for k, x in s.get("slots", {}).items()})

    def _b_grid2d(self, s):
        import autoarray as aa

        mask = self.n(s["mask"])
        over = self._over(s.get("over"), mask)
        mode = s.get("mode", "from_mask")
        if mode == "from_mask":
            return aa.Grid2D.from_mask(mask=mask, over_sampling=over)
        if mode == "native":
            vals = floats(s["values"], tuple(mask.shape_native) + (2,))
        else:
            vals = floats(s["values"], (-1, 2))
        vals = self.own(s["id"], "values", vals)
        return aa.Grid2D(values=vals, mask=mask, over_sampling=over, store_native=bool(s.get("store_native", False)))

    def _b_vector_yx2d(self, s):
        import autoarray as aa

        mask = self.n(s["mask"])
        if s.get("mode") == "native":
            vals = floats(s["values"], tuple(mask.shape_native) + (2,))
        else:
            vals = floats(s["values"], (-1, 2))
        vals = self.own(s["id"], "values", vals)
        return aa.VectorYX2D(values=vals, grid=aa.Grid2D.from_mask(mask=mask), mask=mask)

    def _b_kernel2d(self, s):
        import autoarray as aa

        vals = self.own(s["id"], "values", floats(s["values"], tuple(s["shape"])))
        return aa.Kernel2D.no_mask(values=vals, pixel_scales=tuple(s["pixel_scales"]), normalize=bool(s.get("normalize", False)))

    def _b_array1d(self, s):
        import autoarray as aa

        mask = self.n(s["mask"])
        vals = self.own(s["id"], "values", floats(s["values"]))
        return aa.Array1D(values=vals, mask=mask, store_native=bool(s.get("store_native", False)))

    def _b_grid1d(self, s):
        import autoarray as aa

        return aa.Grid1D.from_mask(mask=self.n(s["mask"]))

    def _b_grid2d_irregular(self, s):
        import autoarray as aa

        return aa.Grid2DIrregular(values=self.own(s["id"], "values", floats(s["values"], (-1, 2))))

    def _b_array_irregular(self, s):
        import autoarray as aa

        return aa.ArrayIrregular(values=self.own(s["id"], "values", floats(s["values"])))

    def _b_visibilities(self, s):
        import autoarray as aa

        v = self.own(s["id"], "visibilities", floats(s["re"]) + 1j * floats(s["im"]))
        cls = aa.VisibilitiesNoiseMap if s.get("noise_map") else aa.Visibilities
        return cls(visibilities=v)

    def _b_imaging(self, s):
        import autoarray as aa

        kw = {}
        o = s.get("over")
        if o is not None:
            kw["over_sampling"] = aa.OverSamplingDataset(
                uniform=self._over(o.get("uniform")), non_uniform=self._over(o.get("non_uniform")), pixelization=self._over(o.get("pixelization"))
            )
        if s.get("pad_for_convolver"):
            kw["pad_for_convolver"] = True
        if "use_normalized_psf" in s:
            kw["use_normalized_psf"] = bool(s["use_normalized_psf"])
        if s.get("cov"):
            n = int(round(len(s["cov"]) ** 0.5))
            a = floats(s["cov"], (n, n))
            cov = a @ a.T + np.eye(n)
            if s.get("cov_order") == "F":
                cov = np.asfortranarray(cov)
            kw["noise_covariance_matrix"] = self.own(s["id"], "noise_covariance_matrix", cov)
            return aa.Imaging(data=self.n(s["data"]), psf=self.opt(s.get("psf")), **kw)
        return aa.Imaging(data=self.n(s["data"]), noise_map=self.n(s["noise"]), psf=self.opt(s.get("psf")), **kw)

    def _b_simulator(self, s):
        import autoarray as aa

        return aa.SimulatorImaging(
            exposure_time=float(s["exposure_time"]),
            background_sky_level=float(s.get("background_sky_level", 0.0)),
            psf=self.opt(s.get("psf")),
            normalize_psf=bool(s.get("normalize_psf", True)),
            add_poisson_noise_to_data=bool(s.get("add_poisson_noise_to_data", True)),
            include_poisson_noise_in_noise_map=bool(s.get("include_poisson_noise_in_noise_map", True)),
            noise_seed=int(s["noise_seed"]),
        )

    def _sub(self, sub, mask):
        import autoarray as aa

        if isinstance(sub, list):
            return aa.Array2D(values=np.array(sub, dtype=float), mask=mask)
        return int(sub)

    def _b_over_sampler(self, s):
        import autoarray as aa

        mask = self.n(s["mask"])
        return aa.OverSamplerUniform(mask=mask, sub_size=self._sub(s["sub_size"], mask))

    def _b_border_relocator(self, s):
        import autoarray as aa

        mask = self.n(s["mask"])
        return aa.BorderRelocator(mask=mask, sub_size=self._sub(s["sub_size"], mask))

    def _reg(self, r):
        import autoarray as aa

        if r is None:
            return None
        name, params = r[0], r[1]
        return getattr(aa.reg, name)(**params)

    def _b_mapper(self, s):
        import autoarray as aa

        mask = self.n(s["mask"])
        rtd = {} if s.get("profile") else None
        sub = self._sub(s.get("sub_size", 1), mask)
        over_sampler = aa.OverSamplerUniform(mask=mask, sub_size=sub)
        grid = over_sampler.over_sampled_grid
        border = aa.BorderRelocator(mask=mask, sub_size=sub) if s.get("border") else None
        adapt = self.opt(s.get("adapt"))
        m = s["mesh"]
        if m["kind"] == "rectangular":
            mesh = aa.mesh.Rectangular(shape=tuple(m["shape"]))
            mg = mesh.mapper_grids_from(mask=mask, source_plane_data_grid=grid, border_relocator=border, adapt_data=adapt, run_time_dict=rtd)
        elif m["kind"] == "delaunay":
            pts = self.own(s["id"], "mesh_points", floats(m["points"], (-1, 2)))
            mesh = aa.mesh.Delaunay()
            mg = mesh.mapper_grids_from(
                mask=mask,
                source_plane_data_grid=grid,
                border_relocator=border,
                source_plane_mesh_grid=aa.Grid2DIrregular(values=pts),
                image_plane_mesh_grid=aa.Grid2DIrregular(values=pts.copy()) if m.get("image_plane") else None,
                adapt_data=adapt,
                run_time_dict=rtd,
            )
        else:
            raise BuildError(m["kind"])
        return aa.Mapper(mapper_grids=mg, regularization=self._reg(s.get("reg")), over_sampler=over_sampler, border_relocator=border, run_time_dict=rtd)

    def _b_regularization(self, s):
        return self._reg(s["reg"])

    def _b_mesh_grid(self, s):
        """A source-plane mesh grid as a node of its own, so that several mappers can share the very same object."""
        import autoarray as aa

        mask = self.n(s["mask"])
        sub = self._sub(s.get("sub_size", 1), mask)
        grid = aa.OverSamplerUniform(mask=mask, sub_size=sub).over_sampled_grid
        if s["mesh"]["kind"] == "rectangular":
            return aa.Mesh2DRectangular.overlay_grid(shape_native=tuple(s["mesh"]["shape"]), grid=grid)
        pts = self.own(s["id"], "mesh_points", floats(s["mesh"]["points"], (-1, 2)))
        if s["mesh"]["kind"] == "voronoi":
            return aa.Mesh2DVoronoi(values=pts)
        return aa.Mesh2DDelaunay(values=pts)

    def _b_mapper_shared(self, s):
        """A mapper assembled by hand from SHARED parts: a mesh-grid node and a regularization node other mappers use too."""
        import autoarray as aa

        mask = self.n(s["mask"])
        sub = self._sub(s.get("sub_size", 1), mask)
        over_sampler = aa.OverSamplerUniform(mask=mask, sub_size=sub)
        mg = aa.MapperGrids(mask=mask, source_plane_data_grid=over_sampler.over_sampled_grid, source_plane_mesh_grid=self.n(s["mesh_grid"]),
                            image_plane_mesh_grid=None, adapt_data=self.opt(s.get("adapt")))
        return aa.Mapper(mapper_grids=mg, regularization=self.opt(s.get("regularization")), over_sampler=over_sampler)

    def _b_func_list(self, s):
        import autoarray as aa

        mask = self.n(s["mask"])
        mat = self.own(s["id"], "matrix", floats(s["matrix"], (int(np.sum(~np.asarray(mask))), int(s["columns"]))))
        FuncList = userobjs.classes()["FuncList"]
        override = None
        if s.get("override"):
            override = self.own(s["id"], "override", floats(s["override"], mat.shape))
        return FuncList(grid=aa.Grid2D.from_mask(mask=mask), matrix=mat, regularization=self._reg(s.get("reg")), override=override)

    def _b_settings(self, s):
        import autoarray as aa

        return aa.SettingsInversion(**s.get("kw", {}))

    def _b_preloads(self, s):
        import autoarray as aa

        kw = {}
        for k, v in s.get("kw", {}).items():
            if isinstance(v, dict) and "$attr" in v:
                # a slot value the user harvested from another object (by reference, as Preloads.set_* does)
                kw[k] = getattr(self.env[v["$attr"][0]], v["$attr"][1])
            else:
                kw[k] = v
        return aa.Preloads(**kw)

    def _b_inversion(self, s):
        import autoarray as aa

        kw = {}
        if s.get("settings") is not None:
            kw["settings"] = self.n(s["settings"])
        if s.get("preloads") is not None:
            kw["preloads"] = self.n(s["preloads"])
        if s.get("profile"):
            kw["run_time_dict"] = {}
        objs = self.own_seq(s["id"], "linear_obj_list", [self.n(o) for o in s["objs"]])
        return aa.Inversion(dataset=self.n(s["dataset"]), linear_obj_list=objs, **kw)

    def _b_fit_imaging(self, s):
        import autoarray as aa

        FitStub = userobjs.classes()["FitStub"]
        dm = None
        if s.get("dataset_model"):
            d = s["dataset_model"]
            dm = aa.DatasetModel(background_sky_level=float(d.get("background_sky_level", 0.0)), grid_offset=tuple(d.get("grid_offset", (0.0, 0.0))))
        return FitStub(
            dataset=self.n(s["dataset"]),
            model_data=self.opt(s.get("model")),
            inversion=self.opt(s.get("inversion")),
            use_mask_in_fit=bool(s.get("use_mask_in_fit", False)),
            dataset_model=dm,
            noise_map=self.opt(s.get("noise_map")),
        )

    def _b_mapper_valued(self, s):
        import autoarray as aa

        v = s["values"]
        if "raw" in v:
            values = self.own(s["id"], "values", floats(v["raw"]))
        else:
            # the caller passes an array it obtained from another object (e.g. inversion.reconstruction): caller-owned too
            values = getattr(self.n(v["from"]), v["prop"])
            if isinstance(values, np.ndarray):
                self.own(s["id"], "values<-" + v["from"]["$node"] + "." + v["prop"], values)
        mpm = s.get("mesh_pixel_mask")
        if mpm is not None:
            mpm = self.own(s["id"], "mesh_pixel_mask", bits(mpm))
        return aa.MapperValued(mapper=self.n(s["mapper"]), values=values, mesh_pixel_mask=mpm)

    def _b_dataset_interface(self, s):
        import autoarray as aa

        return aa.DatasetInterface(
            data=self.n(s["data"]),
            noise_map=self.n(s["noise"]),
            grids=self.opt(s.get("grids")),
            convolver=self.opt(s.get("convolver")),
            transformer=self.opt(s.get("transformer")),
            w_tilde=self.opt(s.get("w_tilde")),
        )

    def _b_convolver(self, s):
        import autoarray as aa

        return aa.Convolver(mask=self.n(s["mask"]), kernel=self.n(s["kernel"]))

    def _b_layout2d(self, s):
        import autoarray as aa

        return aa.Layout2D(shape_2d=tuple(s["shape_2d"]), **{k: tuple(v) for k, v in s.get("regions", {}).items()})

    def _b_region2d(self, s):
        import autoarray as aa

        return aa.Region2D(region=tuple(s["region"]))

    def _b_image_mesh(self, s):
        import autoarray as aa

        return getattr(aa.image_mesh, s["cls"])(**{k: (tuple(v) if isinstance(v, list) else v) for k, v in s.get("kw", {}).items()})

    def _b_transformer(self, s):
        import autoarray as aa

        uv = self.own(s["id"], "uv_wavelengths", floats(s["uv"], (-1, 2)))
        return aa.TransformerDFT(uv_wavelengths=uv, real_space_mask=self.n(s["mask"]), preload_transform=bool(s.get("preload_transform", True)))

    def _b_interferometer(self, s):
        import autoarray as aa

        uv = self.own(s["id"], "uv_wavelengths", floats(s["uv"], (-1, 2)))
        kw = {}
        o = s.get("over")
        if o is not None:
            kw["over_sampling"] = aa.OverSamplingDataset(
                uniform=self._over(o.get("uniform")), non_uniform=self._over(o.get("non_uniform")), pixelization=self._over(o.get("pixelization"))
            )
        return aa.Interferometer(data=self.n(s["data"]), noise_map=self.n(s["noise"]), uv_wavelengths=uv, real_space_mask=self.n(s["mask"]),
                                 transformer_class=aa.TransformerDFT, **kw)

    def _b_coord_triangles(self, s):
        from autoarray.structures.triangles.coordinate_array import CoordinateArrayTriangles

        coords = self.own(s["id"], "coordinates", np.array(s["coordinates"], dtype=int).reshape(-1, 2))
        return CoordinateArrayTriangles(coordinates=coords, side_length=float(s.get("side_length", 1.0)), x_offset=float(s.get("x_offset", 0.0)),
                                        y_offset=float(s.get("y_offset", 0.0)), flipped=bool(s.get("flipped", False)))

    def _b_array_triangles(self, s):
        from autoarray.structures.triangles.array import ArrayTriangles

        idx = self.own(s["id"], "indices", np.array(s["indices"], dtype=int).reshape(-1, 3))
        vert = self.own(s["id"], "vertices", floats(s["vertices"], (-1, 2)))
        return ArrayTriangles(indices=idx, vertices=vert)

    def _b_derive(self, s):
        from sim.worlds import catalog

        out = catalog.perform(self.env, s["src"]["$node"], s["q"], world=self, node_id=s["id"])
        return out
