"""
Evidence (/verif/evidence/<id>.json, level `exploration`): everything is measured on this run.
"""
import json
import os

from . import boot

REAL = [
    "autoarray (current working tree of /repo, pure-Python paths because numba is not installed)",
    "numpy, scipy (incl. Qhull), astropy.io.fits",
    "the file system: a real directory tree on tmpfs created and removed per run",
]
STUBS_COMMON = [
    "fault shims at the library's own call sites (os.makedirs / os.remove inside the FITS utility modules, PrimaryHDU.writeto, numpy/scipy linear solvers), active only for the one operation a fault is armed for",
]


def build(pid, system, tier, batch_seed, results, batches, triaged, known_seen, harness_errors, wall, workers, n_viol):
    runs = [r for r in results if r.get("status") in ("ok", "violation")]
    sigs = set()
    faults = {}
    probes = {}
    unchecked = {}
    calls = {}
    cache_states = set()
    order_pairs = set()
    ops = env = checked = refreads = ticks = skips = 0
    for r in runs:
        st = r.get("stats", {})
        if st.get("nontrivial"):
            sigs.add(st.get("signature"))
        for k, v in st.get("faults_fired", {}).items():
            faults[k] = faults.get(k, 0) + v
        for k, v in st.get("probes", {}).items():
            probes[k] = probes.get(k, 0) + v
        for k, v in st.get("call_outcomes", {}).items():
            calls[k] = calls.get(k, 0) + v
        for k, v in st.get("unchecked", {}).items():
            unchecked[k] = unchecked.get(k, 0) + v
        cache_states.update(st.get("cache_states", []))
        order_pairs.update(st.get("order_pairs", []))
        ops += st.get("ops", 0)
        env += st.get("env", 0)
        checked += st.get("checked", 0)
        refreads += st.get("reference_reads", 0)
        ticks += st.get("sim_ticks", 0)
        skips += st.get("build_skips", 0)
    samples = []
    for r in results:
        if "case" in r and r.get("status") == "ok" and r.get("index", -1) >= 0:
            c = r["case"]
            samples.append({"run_seed": c.get("run_seed"), "mode": c.get("mode"), "knobs": c.get("knobs"), "recipe": _abbrev(c.get("recipe")), "schedule": c.get("schedule")})
        if len(samples) >= 3:
            break
    expected_probes = getattr(system, "EXPECTED_PROBES", [])
    at_zero = [p for p in expected_probes if not probes.get(p)]
    seeds = [r.get("run_seed") for r in runs if r.get("index", -1) >= 0]
    cov = {
        "evaluations": len(runs),
        "distinct_nontrivial": len(sigs),
        "rule": getattr(system, "RULE", ""),
        "samples": samples,
        "batches": batches,
        "workers": workers,
        "runs_per_hour": int(len(runs) / wall * 3600) if wall > 0 else 0,
        "seeds": {"batch_seed": batch_seed, "first_run_seed": seeds[0] if seeds else None, "last_run_seed": seeds[-1] if seeds else None,
                  "derivation": "run_seed = int(sha256(f'{VERIF_SEED}:{system}:{mode}:{i}')[:16], 16)"},
        "simulated_steps": ops + env,
        "client_operations": ops,
        "environment_events": env,
        "simulated_clock_ticks": ticks,
        "faults_fired": faults,
        "checked_reads": checked,
        "reference_reads": refreads,
        "unchecked_by_reason": unchecked,
        "cache_states": len(cache_states),
        "cache_states_measure": getattr(system, "STATE_MEASURE", ""),
        "access_order_pairs": len(order_pairs),
        "probes": probes,
        "query_calls": _call_table(calls),
        "probes_at_zero": at_zero,
        "build_skips": skips,
        "corpus_replays": [
            {"file": os.path.relpath(r["corpus_file"], boot.VERIF), "status": r.get("status")} for r in results if r.get("corpus_file")
        ],
        "triaged_violations": triaged,
        "known_findings_observed": sorted(str(k) for k in known_seen),
        "harness_errors": harness_errors[:20],
        "real_components": REAL,
        "stub_components": STUBS_COMMON + getattr(system, "STUBS", []),
    }
    if at_zero and tier == "thorough":
        import sys

        print(f"warning: probes at zero in a thorough run: {at_zero}", file=sys.stderr)
    return {
        "property_id": pid,
        "tier": tier,
        "seed": int(batch_seed),
        "level": "exploration",
        "coverage": cov,
        "assumptions": getattr(system, "ASSUMPTIONS", []),
        "wall_s": round(wall, 2),
        "violations": int(n_viol),
    }


def _call_table(calls):
    """{'Type.query': {'value': n, 'SomeException': m}} plus the list of query calls that never returned a value in this run"""
    if not calls:
        return {}
    table = {}
    for k, v in calls.items():
        name, _, oc = k.rpartition("|")
        table.setdefault(name, {})[oc] = v
    never = sorted(n for n, d in table.items() if not d.get("value"))
    return {"distinct": len(table), "never_returned_a_value": never, "outcomes": {n: table[n] for n in sorted(table)}}


def _abbrev(recipe):
    out = []
    for n in recipe or []:
        m = {}
        for k, v in n.items():
            if isinstance(v, list) and len(v) > 8:
                m[k] = v[:4] + [f"... {len(v)} values"]
            elif isinstance(v, str) and len(v) > 60:
                m[k] = v[:40] + f"... {len(v)} chars"
            else:
                m[k] = v
        out.append(m)
    return out


def validate(ev):
    """Minimal structural validation against EVIDENCE.schema.json (no jsonschema dependency in /venv)."""
    for k in ("property_id", "tier", "seed", "level", "coverage", "wall_s"):
        assert k in ev, k
    assert ev["tier"] in ("quick", "thorough")
    assert isinstance(ev["seed"], int)
    c = ev["coverage"]
    assert isinstance(c["evaluations"], int) and c["evaluations"] >= 1
    assert isinstance(c["distinct_nontrivial"], int)
    assert isinstance(c["rule"], str)
    assert isinstance(c["samples"], list)


def write(pid, ev):
    d = os.path.join(boot.VERIF, "evidence")
    if os.path.realpath(boot.REPO) != "/repo":
        # a run against a scratch copy (mutant / seeded change) must never overwrite the evidence of /repo itself
        d = os.environ.get("VERIF_EVIDENCE_DIR") or os.path.join(boot.scratch_root(), "evidence")
    os.makedirs(d, exist_ok=True)
    path = os.path.join(d, f"{pid}.json")
    tmp = path + ".tmp"
    with open(tmp, "w") as f:
        json.dump(ev, f, indent=1, default=str)
    os.replace(tmp, path)
    return path
