"""
Run isolation: every simulated run executes in a forked child of a pristine template process, so a run is
a pure function of (seed, code) - no module-level default, config override, RNG state, warning filter,
open file or working directory can leak from one run into the next.  Results travel back over a pipe.
"""
import os
import pickle
import select
import signal
import sys
import time
import traceback


def run_in_child(fn, args=(), timeout=120.0):
    """-> (status, payload) with status in {'ok','exception','timeout','died'}"""
    r, w = os.pipe()
    sys.stdout.flush()
    sys.stderr.flush()
    pid = os.fork()
    if pid == 0:
        code = 0
        try:
            os.close(r)
            # the library prints (banners, KMeans' explanation before sys.exit ...): a run's stdout is not the check's stdout
            try:
                dn = os.open(os.devnull, os.O_WRONLY)
                os.dup2(dn, 1)
                os.close(dn)
            except OSError:
                pass
            try:
                import faulthandler

                faulthandler.enable()
                faulthandler.dump_traceback_later(max(1.0, timeout - 1.0), exit=False)
            except Exception:
                pass
            try:
                out = ("ok", fn(*args))
            except BaseException:
                out = ("exception", traceback.format_exc())
            data = pickle.dumps(out, protocol=pickle.HIGHEST_PROTOCOL)
            view = memoryview(data)
            while view:
                n = os.write(w, view[: 1 << 16])
                view = view[n:]
        except BaseException:
            code = 3
        finally:
            os._exit(code)
    os.close(w)
    chunks = []
    deadline = time.monotonic() + timeout
    status = None
    try:
        while True:
            left = deadline - time.monotonic()
            if left <= 0:
                status = "timeout"
                break
            ready, _, _ = select.select([r], [], [], min(left, 1.0))
            if ready:
                b = os.read(r, 1 << 20)
                if not b:
                    break
                chunks.append(b)
    finally:
        os.close(r)
    if status == "timeout":
        try:
            os.kill(pid, signal.SIGKILL)
        except ProcessLookupError:
            pass
        os.waitpid(pid, 0)
        return "timeout", None
    _, st = os.waitpid(pid, 0)
    if not chunks:
        return "died", st
    try:
        return pickle.loads(b"".join(chunks))
    except Exception:
        return "died", st
