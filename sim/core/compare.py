"""
Canonical value trees (DESIGN 3.7).

`canon(x)` reduces any outcome to a picklable, hashable-by-digest tree in which two values are equal iff the
library reported the same thing: arrays compare by dtype kind, shape and bytes (with -0.0 normalised and
NaNs canonicalised), library structures by (type, array, mask), masks by (array, pixel_scales, origin),
exceptions by type name, unknown objects by type name only (never a false alarm from an unknown type).

The harness never uses `==` on library objects and never keeps a returned array without canonising it first.
"""
import hashlib
import inspect
import marshal

import numpy as np


def _norm_float_array(a: np.ndarray) -> np.ndarray:
    a = np.array(a, copy=True, order="C")
    if a.dtype.kind == "f":
        a[a == 0] = 0.0
        nan = np.isnan(a)
        if nan.any():
            a[nan] = np.nan
    elif a.dtype.kind == "c":
        re = _norm_float_array(a.real)
        im = _norm_float_array(a.imag)
        a = re + 1j * im
    return a


def canon_ndarray(a: np.ndarray):
    a = np.asarray(a)
    if a.dtype.kind == "O":
        return ("ndo", tuple(a.shape), tuple(canon(v) for v in a.ravel().tolist()))
    if a.dtype.kind in "fc":
        a = _norm_float_array(a)
        if a.dtype.kind == "f":
            a = a.astype(np.float64, copy=False)
        else:
            a = a.astype(np.complex128, copy=False)
    elif a.dtype.kind in "iu":
        a = np.ascontiguousarray(a).astype(np.int64)
    elif a.dtype.kind == "b":
        a = np.ascontiguousarray(a)
    else:
        return ("ndx", str(a.dtype), tuple(a.shape), repr(a.tolist()))
    return ("nd", a.dtype.kind, tuple(int(s) for s in a.shape), np.ascontiguousarray(a).tobytes())


def _canon_float(x: float):
    x = float(x)
    if x != x:
        return ("f", "nan")
    if x == 0.0:
        x = 0.0
    return ("f", x.hex())


# public array attributes of the small record types the library returns
_RECORD_ATTRS = {
    "Neighbors": ("arr", "sizes"),
    "UniqueMappings": ("data_to_pix_unique", "data_weights", "pix_lengths"),
    "PixSubWeights": ("mappings", "sizes", "weights"),
    "PixSubWeightsSplitCross": ("mappings", "sizes", "weights"),
    "WTildeImaging": ("curvature_preload", "indexes", "lengths", "noise_map_value"),
    "Region2D": ("region",),
    "Region1D": ("region",),
}


def canon(x, _depth=0, _obj=0):
    if _depth > 12:
        return ("deep",)
    if x is None:
        return ("none",)
    if isinstance(x, (bool, np.bool_)):
        return ("b", bool(x))
    if isinstance(x, (int, np.integer)):
        return ("i", int(x))
    if isinstance(x, (float, np.floating)):
        return _canon_float(x)
    if isinstance(x, (complex, np.complexfloating)):
        return ("c", _canon_float(x.real), _canon_float(x.imag))
    if isinstance(x, str):
        return ("s", x)
    if isinstance(x, bytes):
        return ("by", x)
    if isinstance(x, BaseException):
        return ("exc", type(x).__name__)

    tname = type(x).__name__

    # library structures: duck-typed so that this module never imports autoarray at import time
    if hasattr(x, "_array") and hasattr(type(x), "with_new_array"):
        arr = x._array
        if hasattr(x, "pixel_scales") and tname.startswith("Mask"):
            return (
                "mask",
                tname,
                canon_ndarray(np.asarray(arr)),
                canon(getattr(x, "pixel_scales", None), _depth + 1, _obj),
                canon(getattr(x, "origin", None), _depth + 1, _obj),
            )
        mask = getattr(x, "mask", None)
        extra = ()
        if tname in ("Grid2DIrregular", "ArrayIrregular", "Visibilities", "VisibilitiesNoiseMap"):
            mask = None
        return ("aa", tname, canon_ndarray(np.asarray(arr)), canon(mask, _depth + 1, _obj) if mask is not None else ("none",)) + extra
    if isinstance(x, np.ndarray):
        return canon_ndarray(x)
    if isinstance(x, (tuple, list)):
        return ("t" if isinstance(x, tuple) else "l", tuple(canon(v, _depth + 1, _obj) for v in x))
    if isinstance(x, dict):
        items = []
        for k, v in x.items():
            if isinstance(k, (str, int, float, bool, tuple)) or k is None:
                ck = canon(k, _depth + 1, _obj)
            else:
                ck = ("key", type(k).__name__)
            items.append((ck, canon(v, _depth + 1, _obj)))
        return ("d", tuple(items))
    if isinstance(x, (set, frozenset)):
        return ("set", tuple(sorted(repr(canon(v, _depth + 1, _obj)) for v in x)))
    mod = type(x).__module__ or ""
    if mod.startswith("scipy.sparse"):
        try:
            return ("sp", canon_ndarray(np.asarray(x.toarray())))
        except Exception:
            return ("obj", tname)
    if tname == "Delaunay" and hasattr(x, "simplices"):
        return ("delaunay", canon_ndarray(x.points), canon_ndarray(x.simplices))
    if tname in _RECORD_ATTRS:
        return ("rec", tname, tuple((a, canon(getattr(x, a, None), _depth + 1, _obj)) for a in _RECORD_ATTRS[tname]))
    if tname in ("Imaging", "Interferometer") and hasattr(x, "noise_map"):
        return ("ds", tname, canon(getattr(x, "data", None), _depth + 1, _obj), canon(getattr(x, "noise_map", None), _depth + 1, _obj), canon(getattr(x, "psf", None), _depth + 1, _obj))
    if tname == "Header":
        return ("obj", tname)
    if mod.startswith("autoarray") and _obj < 2 and tname != "Preloads":
        # any other library object a query hands back (an over-sampler, a geometry or derive helper, mapper grids, a settings or
        # regularization object ...) is its public attributes, two objects deep: what it IS, not what it has cached - entries of
        # cached properties and private attributes are left out, so that the history of the returned object does not count.
        # (A Preloads reports its own history by design and stays opaque.)
        d = getattr(x, "__dict__", None)
        if d:
            items = []
            for k in sorted(d):
                if k.startswith("_") or k == "run_time_dict":
                    continue
                try:
                    a = inspect.getattr_static(type(x), k)
                except AttributeError:
                    a = None
                if a is not None and type(a).__name__ in ("CachedProperty", "cached_property"):
                    continue
                items.append((k, canon(d[k], _depth + 1, _obj + 1)))
            return ("obj", tname, tuple(items))
    return ("obj", tname)


def digest(tree) -> str:
    """Structural digest of a canonical tree.  marshal version 2 has no object references, so two structurally equal trees
    serialise identically whatever objects they are built from (pickle would not: it memoises by identity)."""
    try:
        return hashlib.sha1(marshal.dumps(tree, 2)).hexdigest()[:16]
    except ValueError:
        h = hashlib.sha1()
        _feed(h, tree)
        return h.hexdigest()[:16]


def _feed(h, t):
    if isinstance(t, tuple):
        h.update(b"(")
        for v in t:
            _feed(h, v)
        h.update(b")")
    elif isinstance(t, bytes):
        h.update(b"B")
        h.update(str(len(t)).encode())
        h.update(t)
    else:
        h.update(repr(t).encode())
        h.update(b",")


def describe(tree, limit=6) -> str:
    """Short human-readable rendering for violation records."""
    if not isinstance(tree, tuple) or not tree:
        return repr(tree)
    tag = tree[0]
    if tag == "nd":
        _, kind, shape, raw = tree
        dt = {"f": np.float64, "c": np.complex128, "i": np.int64, "b": np.bool_}[kind]
        a = np.frombuffer(raw, dtype=dt)
        head = ", ".join(repr(v) for v in a[:limit].tolist())
        more = ", ..." if a.size > limit else ""
        return f"nd {kind} {shape} sha1:{hashlib.sha1(raw).hexdigest()[:10]} [{head}{more}]"
    if tag in ("aa", "mask"):
        return f"{tree[1]}<{describe(tree[2], limit)}>"
    if tag == "exc":
        return f"raises {tree[1]}"
    if tag in ("f",):
        return tree[1] if tree[1] == "nan" else repr(float.fromhex(tree[1]))
    if tag in ("b", "i", "s"):
        return repr(tree[1])
    if tag in ("t", "l"):
        inner = ", ".join(describe(v, limit) for v in tree[1][:4])
        return f"{tag}[{len(tree[1])}]({inner}{', ...' if len(tree[1]) > 4 else ''})"
    if tag == "d":
        return f"dict[{len(tree[1])}] sha1:{digest(tree)}"
    if tag == "obj":
        return f"<{tree[1]}>" if len(tree) < 3 else f"<{tree[1]} sha1:{digest(tree)}>"
    return f"{tag} sha1:{digest(tree)}"


def to_array(tree):
    """Inverse of canon_ndarray for numeric arrays, and for library structures (returns the raw array)."""
    if tree[0] in ("aa", "mask"):
        return to_array(tree[2])
    if tree[0] == "nd":
        _, kind, shape, raw = tree
        dt = {"f": np.float64, "c": np.complex128, "i": np.int64, "b": np.bool_}[kind]
        return np.frombuffer(raw, dtype=dt).reshape(shape)
    if tree[0] == "f":
        return np.array(float("nan") if tree[1] == "nan" else float.fromhex(tree[1]))
    if tree[0] in ("i", "b"):
        return np.array(tree[1])
    raise TypeError(f"not an array tree: {tree[0]}")


def fast_fp(v, _depth=0):
    """Cheap change detector for the after-event audits (never logged, never compared across processes): raw bytes of arrays
    through the built-in hash, scalars by value, anything else through the canonical digest."""
    if isinstance(v, np.ndarray):
        if v.dtype.kind == "O":
            return digest(canon(v))
        return ("a", v.dtype.str, v.shape, hash(v.tobytes()))  # raw bytes: a NaN equals itself
    if isinstance(v, float):
        return "nan" if v != v else float(v)  # NaN must compare equal to itself here
    if v is None or isinstance(v, (bool, int, str)):
        return v
    if hasattr(v, "_array") and hasattr(type(v), "with_new_array") and _depth < 3:
        m = getattr(v, "mask", None)
        return ("s", type(v).__name__, fast_fp(np.asarray(v._array), _depth + 1), fast_fp(m, _depth + 1) if m is not None and m is not v else None,
                getattr(v, "pixel_scales", None) if type(v).__name__.startswith("Mask") else None, getattr(v, "origin", None) if type(v).__name__.startswith("Mask") else None)
    if isinstance(v, (tuple, list)) and len(v) <= 16 and _depth < 3:
        return ("t", tuple(fast_fp(x, _depth + 1) for x in v))
    return digest(canon(v))


def fingerprint_array(a) -> str:
    """Byte fingerprint of a caller-owned array (exact bytes, no normalisation)."""
    a = np.asarray(a)
    h = hashlib.sha1()
    h.update(str(a.dtype).encode())
    h.update(str(a.shape).encode())
    h.update(np.ascontiguousarray(a).tobytes())
    return h.hexdigest()[:16]
