#!/venv/bin/python
"""
Entry point of the simulator.

  main.py check <C11|C15|C16> --tier quick|thorough [--runs N] [--workers N] [--wall S]
  main.py replay <file> [--json]
  main.py selftest-determinism [--system S] [--seeds N]
  main.py setup
"""
import argparse
import json
import os
import sys
import time

sys.path.insert(0, os.path.dirname(os.path.dirname(os.path.abspath(__file__))))

from sim.core import boot  # noqa: E402

boot.ensure_env()

from sim.core import evidence, findings, prng, runner  # noqa: E402

SYSTEM_OF = {"C16": "fits", "C11": "purity", "C15": "preloads"}
STANDIN_SYSTEMS = {"purity"}  # systems whose worlds include interferometer objects (need the pylops stand-in, see boot.py)


def cmd_setup(args):
    boot.boot()
    import autoarray
    import astropy
    import numpy
    import scipy

    print(f"setup ok: autoarray {autoarray.__version__} from {os.path.dirname(autoarray.__file__)}; numpy {numpy.__version__}, scipy {scipy.__version__}, astropy {astropy.__version__}")
    return 0


def cmd_replay(args):
    args.file = os.path.abspath(args.file)
    with open(args.file) as f:
        case = json.load(f)
    system_name = case.get("system") or SYSTEM_OF[case["property"]]
    boot.boot(pylops_standin=system_name in STANDIN_SYSTEMS)
    recorded = case.pop("violation", None)
    known = [] if args.ignore_known else findings.load()
    cfg = {"tier": "replay", "mode": case.get("mode", "")}
    res = runner.execute_isolated(system_name, case.get("run_seed", 0), case, cfg, known)
    out = {"status": res.get("status"), "log_digest": res.get("log_digest")}
    if res.get("status") == "violation":
        out["class"] = list(findings.violation_class(res["violation"]))
        out["violation"] = res["violation"]
    if res.get("status") == "harness_error":
        out["error"] = res.get("error")
    out["known_hits"] = [list(findings.violation_class(v)) for v in res.get("known_hits", [])]
    if args.json:
        print("REPLAY-RESULT " + json.dumps(out, default=str))
    else:
        print(json.dumps(out, indent=1, default=str))
        if recorded is not None:
            same = res.get("status") == "violation" and findings.violation_class(recorded) == findings.violation_class(res["violation"])
            print("reproduces recorded violation:", same)
    if res.get("status") == "violation":
        print(f"VIOLATION property={case['property']} replay={os.path.abspath(args.file)}")
        return 1
    for v in res.get("known_hits", []):
        print(f"KNOWN-FINDING: property={case['property']} {v.get('finding_id')} {v['kind']} {v['target_type']}.{v['quantity']}")
    return 2 if res.get("status") == "harness_error" else 0


def cmd_shrink(args):
    """Minimise a (raw) replay file with respect to its recorded violation class; write the result to --out."""
    args.file = os.path.abspath(args.file)
    out = os.path.abspath(args.out)
    with open(args.file) as f:
        case = json.load(f)
    system_name = case.get("system") or SYSTEM_OF[case["property"]]
    boot.boot(pylops_standin=system_name in STANDIN_SYSTEMS)
    from sim.core import shrink as shrink_mod

    recorded = case.pop("violation")
    system = runner.load_system(system_name)
    known = [] if args.ignore_known else findings.load()
    cfg = {"tier": "replay", "mode": case.get("mode", "")}

    def ex(c):
        return runner.execute_isolated(system_name, c.get("run_seed", 0), c, cfg, known)

    small, res, n = shrink_mod.shrink(case, findings.violation_class(recorded), ex, system)
    if small is None:
        print("does not reproduce")
        return 2
    small = dict(small)
    small["violation"] = res["violation"]
    with open(out, "w") as f:
        json.dump(small, f, indent=1)
    print(f"shrunk to {len(small['schedule'])} ops / {len(small['recipe'])} nodes in {n} executions -> {out}")
    return 0


def cmd_check(args):
    t0 = time.monotonic()
    pid = args.property
    system_name = SYSTEM_OF[pid]
    boot.boot(pylops_standin=system_name in STANDIN_SYSTEMS)
    system = runner.load_system(system_name)
    tier = args.tier
    tcfg = dict(system.TIERS[tier])
    batch_seed = int(os.environ.get("VERIF_SEED", "0"))
    workers = args.workers or int(os.environ.get("VERIF_WORKERS", "0")) or min(16, os.cpu_count() or 1)
    known = findings.load()
    wall_cap = args.wall if args.wall else tcfg["wall_cap"]

    all_results = []
    harness_errors = []
    batches_info = []

    # 1. regression corpus
    corpus = runner.corpus_results(system_name, pid, {"tier": tier}, known)
    for r in corpus:
        if r.get("status") == "harness_error":
            harness_errors.append(f"corpus {r.get('corpus_file')}: {r.get('error')}")
    all_results.extend(corpus)

    # 2. optional determinism self-test as the first step of a thorough run
    if tier == "thorough" and not args.no_selftest:
        bad = determinism_selftest(system_name, n=tcfg.get("selftest_seeds", 40), workers=workers)
        if bad:
            harness_errors.extend(bad)

    # 3. seeded batches (fault-free and fault-injecting configurations are separate batches)
    total_budget = wall_cap
    n_total = sum(n for _, n in tcfg["batches"])
    capped_any = False
    for mode, n in tcfg["batches"]:
        if args.runs:
            n = max(1, int(args.runs * n / n_total))
        share = total_budget * n / n_total if not args.runs else total_budget
        cfg = {"tier": tier, "mode": mode}
        res, capped = runner.run_batch(system_name, batch_seed, n, cfg, known, workers, share, keep_case_every=max(1, n // 6))
        capped_any = capped_any or capped
        for r in res:
            r["mode"] = mode
        batches_info.append({"mode": mode, "requested": n, "completed": len(res), "capped": capped})
        all_results.extend(res)

    run_errors = []
    for r in all_results:
        if r.get("status") == "harness_error":
            run_errors.append(f"run index={r.get('index')} seed={r.get('run_seed')}: {r.get('error')}")
    # an isolated run lost to the machine (timeout under load, killed child) is reported but does not make the batch a
    # harness error; a systematic loss (> 1 % of the runs) does, because then too little was explored to say "held"
    n_done = sum(1 for r in all_results if r.get("status") in ("ok", "violation"))
    if len(run_errors) > max(2, 0.01 * max(1, n_done)):
        harness_errors.extend(run_errors)
    else:
        for e in run_errors:
            print(f"warning: run lost ({e[:200]})", file=sys.stderr)

    # 4. triage
    viol_lines, herr, triaged = runner.triage(system_name, all_results, {"tier": tier}, known, pid)
    harness_errors.extend(herr)

    # known findings observed
    known_seen = {}
    for r in all_results:
        for v in r.get("known_hits", []):
            known_seen.setdefault(v.get("finding_id"), v)

    core_built = [r for r in all_results if r.get("stats", {}).get("core_built")]
    ok_runs = [r for r in all_results if r.get("status") in ("ok", "violation")]
    if ok_runs and len(core_built) < 0.5 * len(ok_runs):
        harness_errors.append(f"only {len(core_built)} of {len(ok_runs)} runs could build their core template")

    wall = time.monotonic() - t0
    ev = evidence.build(pid, system, tier, batch_seed, all_results, batches_info, triaged, known_seen, harness_errors + run_errors, wall, workers, len(viol_lines))
    evidence.write(pid, ev)

    for fid, v in sorted(known_seen.items(), key=lambda kv: str(kv[0])):
        f = next((f for f in known if f.get("id") == fid), {})
        print(f"KNOWN-FINDING: property={pid} {fid}: {f.get('what', v['kind'])}")
    for p, path, v in viol_lines:
        print(f"violation: {v['kind']} on {v['target_type']}.{v['quantity']} condition={json.dumps(v.get('condition'), sort_keys=True)}")
        print(f"  expected: {v.get('expected')}")
        print(f"  got:      {v.get('got')}")
        print(f"VIOLATION property={p} replay={path}")
    for e in harness_errors[:20]:
        print(f"HARNESS-ERROR: {e}", file=sys.stderr)
    cov = ev["coverage"]
    print(
        f"{pid} {tier}: runs={cov['evaluations']} distinct_nontrivial={cov['distinct_nontrivial']} checked={cov.get('checked_reads')} "
        f"faults={cov.get('faults_fired')} violations={len(viol_lines)} violating_runs={sum(1 for r in all_results if r.get('status') == 'violation')} "
        f"known={len(known_seen)} harness_errors={len(harness_errors)} wall={wall:.1f}s"
    )
    if viol_lines:
        return 1
    if harness_errors:
        return 2
    return 0


def determinism_selftest(system_name, n=40, workers=16, batch_seed=987654321):
    """Every seed twice in this interpreter (different worker processes); digests must agree.  -> list of errors"""
    errors = []
    system = runner.load_system(system_name)
    modes = [m for m, _ in system.TIERS["quick"]["batches"]]
    for mode in modes:
        cfg = {"tier": "quick", "mode": mode}
        a, _ = runner.run_batch(system_name, batch_seed, n, cfg, [], workers, 600, chunk=4)
        b, _ = runner.run_batch(system_name, batch_seed, n, cfg, [], max(1, workers // 3), 600, chunk=3)
        da = {r["index"]: (r.get("log_digest"), r.get("status")) for r in a}
        db = {r["index"]: (r.get("log_digest"), r.get("status")) for r in b}
        for i in sorted(da):
            if da[i] != db.get(i):
                errors.append(f"determinism: {system_name}/{mode} index {i}: {da[i]} != {db.get(i)}")
    return errors


def cmd_selftest_determinism(args):
    """In-process pairs + fresh interpreters under two PYTHONHASHSEED values + two worker counts."""
    import subprocess

    boot.boot()
    systems = [args.system] if args.system else [s for s in SYSTEM_OF.values() if os.path.exists(os.path.join(boot.VERIF, "sim", "systems", s + ".py"))]
    rc = 0
    for s in systems:
        errs = determinism_selftest(s, n=args.seeds)
        # fresh interpreters with other hash seeds
        digests = {}
        for hs in ("0", "1", "31337"):
            env = dict(os.environ)
            env["VERIF_HASHSEED"] = hs
            env.pop("PYTHONHASHSEED", None)
            p = subprocess.run(
                [sys.executable, os.path.abspath(__file__), "digests", "--system", s, "--seeds", str(args.seeds)],
                capture_output=True, text=True, env=env, cwd=boot.VERIF,
            )
            line = [l for l in p.stdout.splitlines() if l.startswith("DIGESTS ")]
            digests[hs] = line[-1] if line else f"rc={p.returncode} {p.stderr[-300:]}"
        if len(set(digests.values())) != 1:
            errs.append(f"determinism across fresh interpreters / PYTHONHASHSEED differs for {s}: {digests}")
        print(f"selftest-determinism {s}: {'OK' if not errs else 'FAILED'} ({args.seeds} seeds x modes, 2 worker counts, 3 hash seeds)")
        for e in errs[:10]:
            print("HARNESS-ERROR:", e, file=sys.stderr)
        if errs:
            rc = 2
    return rc


def cmd_digests(args):
    import hashlib

    boot.boot(pylops_standin=args.system in STANDIN_SYSTEMS)
    system = runner.load_system(args.system)
    h = hashlib.sha256()
    for mode, _ in system.TIERS["quick"]["batches"]:
        res, _ = runner.run_batch(args.system, 987654321, args.seeds, {"tier": "quick", "mode": mode}, [], 8, 600, chunk=5)
        for r in res:
            h.update(f"{r['index']}:{r.get('status')}:{r.get('log_digest')};".encode())
    print("DIGESTS " + h.hexdigest())
    return 0


def main():
    ap = argparse.ArgumentParser()
    sub = ap.add_subparsers(dest="cmd", required=True)
    p = sub.add_parser("check")
    p.add_argument("property", choices=sorted(SYSTEM_OF))
    p.add_argument("--tier", choices=["quick", "thorough"], default=os.environ.get("VERIF_TIER", "quick"))
    p.add_argument("--runs", type=int, default=0)
    p.add_argument("--workers", type=int, default=0)
    p.add_argument("--wall", type=float, default=0.0)
    p.add_argument("--no-selftest", action="store_true")
    p.set_defaults(fn=cmd_check)
    p = sub.add_parser("replay")
    p.add_argument("file")
    p.add_argument("--json", action="store_true")
    p.add_argument("--ignore-known", action="store_true")
    p.set_defaults(fn=cmd_replay)
    p = sub.add_parser("shrink")
    p.add_argument("file")
    p.add_argument("--out", required=True)
    p.add_argument("--ignore-known", action="store_true")
    p.set_defaults(fn=cmd_shrink)
    p = sub.add_parser("selftest-determinism")
    p.add_argument("--system", default=None)
    p.add_argument("--seeds", type=int, default=60)
    p.set_defaults(fn=cmd_selftest_determinism)
    p = sub.add_parser("digests")
    p.add_argument("--system", required=True)
    p.add_argument("--seeds", type=int, default=60)
    p.set_defaults(fn=cmd_digests)
    p = sub.add_parser("setup")
    p.set_defaults(fn=cmd_setup)
    args = ap.parse_args()
    sys.exit(args.fn(args))


if __name__ == "__main__":
    main()
