"""
Batch runner (DESIGN 3.9): seeds sharded over a fork-based process pool; every run isolated in its own
forked child; results merged in seed order; failures minimised, written as replay files, confirmed in a
FRESH interpreter, then classified (VIOLATION / KNOWN-FINDING / HARNESS-ERROR); evidence written from what
was measured.

Exit codes: 0 held, 1 violation, 2 harness error.
"""
import concurrent.futures as cf
import glob
import hashlib
import importlib
import json
import multiprocessing as mp
import os
import subprocess
import sys
import time

from . import boot, findings, isolate, prng, shrink as shrink_mod

RUN_TIMEOUT = float(os.environ.get("VERIF_RUN_TIMEOUT", "60"))


def load_system(name):
    return importlib.import_module(f"sim.systems.{name}")


def execute_isolated(system_name, run_seed, case, cfg, known, timeout=RUN_TIMEOUT):
    """One run in a forked child of this (pristine, booted) process."""
    system = load_system(system_name)
    status, payload = isolate.run_in_child(system.execute, (run_seed, case, cfg, known), timeout=timeout)
    if status == "ok":
        return payload
    return {
        "run_seed": run_seed,
        "status": "harness_error",
        "error": f"{status}: {payload if isinstance(payload, str) else payload!r}",
        "stats": {},
        "known_hits": [],
    }


def _worker_chunk(system_name, batch_seed, indices, cfg, known, keep_case_every):
    boot.boot()
    out = []
    for i in indices:
        rs = prng.run_seed(batch_seed, system_name + ":" + cfg.get("mode", ""), i)
        res = execute_isolated(system_name, rs, None, cfg, known)
        res["index"] = i
        if res.get("status") == "ok" and not (keep_case_every and i % keep_case_every == 0):
            res.pop("case", None)
        out.append(res)
    return out


def run_batch(system_name, batch_seed, n_runs, cfg, known, workers, wall_cap, chunk=8, keep_case_every=0):
    """-> list of results sorted by index (a prefix of 0..n_runs-1 if the wall cap was hit)."""
    boot.boot()
    t0 = time.monotonic()
    results = []
    ctx = mp.get_context("fork")
    indices = list(range(n_runs))
    chunks = [indices[i : i + chunk] for i in range(0, len(indices), chunk)]
    capped = False
    with cf.ProcessPoolExecutor(max_workers=workers, mp_context=ctx) as ex:
        pending = set()
        it = iter(chunks)
        max_inflight = workers * 2

        def submit_more():
            nonlocal capped
            while len(pending) < max_inflight:
                if time.monotonic() - t0 > wall_cap:
                    capped = True
                    return
                try:
                    c = next(it)
                except StopIteration:
                    return
                pending.add(ex.submit(_worker_chunk, system_name, batch_seed, c, cfg, known, keep_case_every))

        submit_more()
        while pending:
            done, _ = cf.wait(pending, timeout=5.0, return_when=cf.FIRST_COMPLETED)
            for f in done:
                pending.discard(f)
                try:
                    results.extend(f.result())
                except Exception as e:  # a dead worker
                    results.append({"index": -1, "status": "harness_error", "error": f"worker: {e!r}", "stats": {}, "known_hits": []})
            n_viol = sum(1 for r in results if r.get("status") == "violation")
            if n_viol >= 40:
                capped = True
                for p in pending:
                    p.cancel()
                it = iter(())
            submit_more()
    results.sort(key=lambda r: r.get("index", -1))
    return results, capped


# ---------------------------------------------------------------------------------------------------


def write_replay(case, result, property_id, tag=""):
    os.makedirs(os.path.join(boot.VERIF, "replays"), exist_ok=True)
    out = dict(case)
    out["violation"] = result["violation"]
    path = os.path.join(boot.VERIF, "replays", f"{property_id}-{case.get('run_seed', 0)}{tag}.json")
    with open(path, "w") as f:
        json.dump(out, f, indent=1, sort_keys=False)
    return path


def replay_fresh(path, timeout=300):
    """Execute a replay file in a fresh interpreter; -> dict printed by `main.py replay --json`."""
    cmd = [sys.executable, os.path.join(boot.VERIF, "sim", "main.py"), "replay", path, "--json"]
    env = dict(os.environ)
    try:
        p = subprocess.run(cmd, capture_output=True, text=True, timeout=timeout, env=env, cwd=boot.VERIF)
    except subprocess.TimeoutExpired:
        return {"status": "harness_error", "error": "replay timeout"}
    for line in reversed(p.stdout.splitlines()):
        if line.startswith("REPLAY-RESULT "):
            return json.loads(line[len("REPLAY-RESULT ") :])
    return {"status": "harness_error", "error": f"no replay result (rc={p.returncode}): {p.stderr[-500:]}"}


def triage(system_name, results, cfg, known, property_id, max_classes=4, log=print):
    """
    Minimise + confirm the first run of every violation class.
    -> (violation_lines, known_lines, harness_errors, triaged)
    """
    system = load_system(system_name)
    by_class = {}
    for r in results:
        if r.get("status") == "violation":
            by_class.setdefault(findings.violation_class(r["violation"]), []).append(r)
    violation_lines, harness = [], []
    triaged = []
    for k, (vclass, runs) in enumerate(sorted(by_class.items(), key=lambda kv: kv[1][0].get("index", 0))):
        if k >= max_classes:
            # still a violation: report unminimised
            r = runs[0]
            path = write_replay(r["case"], r, property_id, tag="-raw")
            violation_lines.append((property_id, path, r["violation"]))
            continue
        r = runs[0]

        def ex(c, _rs=r["run_seed"]):
            return execute_isolated(system_name, c.get("run_seed", _rs), c, cfg, known)

        small, small_res, n_exec = shrink_mod.shrink(r["case"], vclass, ex, system)
        if small is None:
            # replay from the recorded schedule did not reproduce in-process: harness nondeterminism
            harness.append(f"run_seed={r['run_seed']} class={vclass}: recorded schedule does not reproduce")
            path = write_replay(r["case"], r, property_id, tag="-unreproduced")
            continue
        path = write_replay(small, small_res, property_id)
        fresh = replay_fresh(path)
        if fresh.get("status") != "violation" or tuple(fresh.get("class", ())) != tuple(vclass):
            harness.append(
                f"run_seed={r['run_seed']} class={vclass}: minimised replay {path} does not reproduce in a fresh interpreter ({fresh})"
            )
            continue
        triaged.append({"class": list(vclass), "runs": len(runs), "replay": path, "shrink_executions": n_exec,
                        "schedule_len": len(small["schedule"]), "original_len": len(r["case"]["schedule"])})
        violation_lines.append((property_id, path, small_res["violation"]))
    return violation_lines, harness, triaged


def corpus_results(system_name, property_id, cfg, known):
    """Regression corpus: minimised replays of repaired defects must pass on the current tree."""
    out = []
    for path in sorted(glob.glob(os.path.join(boot.VERIF, "corpus", property_id, "*.json"))):
        with open(path) as f:
            case = json.load(f)
        case.pop("violation", None)
        if case.get("system", system_name) != system_name:
            continue
        res = execute_isolated(system_name, case.get("run_seed", 0), case, cfg_for_case(cfg, case), known)
        res["corpus_file"] = path
        res["index"] = -1
        out.append(res)
    return out


def cfg_for_case(cfg, case):
    c = dict(cfg)
    c["mode"] = case.get("mode", c.get("mode", ""))
    return c
