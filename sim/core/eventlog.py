"""
Event log: one JSON-able dict per client operation / environment event, stamped with the global sequence
number.  The first entry is the seed.  Logging never draws from a PRNG stream and never reads a clock.
"""
import hashlib
import json


class EventLog:
    def __init__(self, run_seed: int, system: str):
        self.events = [{"seq": -1, "seed": int(run_seed), "system": system}]
        self._h = hashlib.sha256(json.dumps(self.events[0], sort_keys=True).encode())
        self.seq = 0
        self.keep = True

    def append(self, **event) -> int:
        event["seq"] = self.seq
        self.seq += 1
        self._h.update(json.dumps(event, sort_keys=True, default=str).encode())
        if self.keep:
            self.events.append(event)
        return event["seq"]

    def digest(self) -> str:
        return self._h.hexdigest()
