"""
Reference executor (DESIGN 3.6): the oracle's side of the wall.

A reference SERVER process is forked at the start of a run, before the first client operation, so it holds a
pristine interpreter state (module-level defaults, config, RNG, class attributes).  The server never executes
a library operation itself: for every request it forks a short-lived WORKER that builds a pristine twin of the
requested node from the recipe, performs ONLY the requested read, canonicalises the outcome and pipes it back.
The server therefore stays pristine by construction.  Each worker also fingerprints its own process-global
state before and after the read: a difference means a single pristine operation mutates process-global state.

`InprocReference` is the same logic in-process (debugging only; used by `--oracle inproc`).
"""
import json
import os
import pickle
import struct
import sys
import traceback

from . import compare, seams


def _send(fd, obj):
    data = pickle.dumps(obj, protocol=pickle.HIGHEST_PROTOCOL)
    os.write(fd, struct.pack("<I", len(data)))
    view = memoryview(data)
    while view:
        n = os.write(fd, view[: 1 << 16])
        view = view[n:]


def _recv_exact(fd, n):
    chunks = []
    while n > 0:
        b = os.read(fd, n)
        if not b:
            raise EOFError("reference pipe closed")
        chunks.append(b)
        n -= len(b)
    return b"".join(chunks)


def _recv(fd):
    (n,) = struct.unpack("<I", _recv_exact(fd, 4))
    return pickle.loads(_recv_exact(fd, n))


def twin_read(specs, node_id, q, twice=False):
    """Build the construction sub-DAG of node_id (and of q's argument nodes) from raw bytes, perform q, canonicalise."""
    from sim.worlds import build, catalog

    def once():
        W = build.World()
        needed = []
        for root in [node_id] + catalog.q_nodes(q or {}):
            for i in W.closure(specs, root):
                if i not in needed:
                    needed.append(i)
        # keep recipe order (a derived node's construction may depend on the order of earlier constructions only via deps)
        order = [i for i in specs if i in needed]
        for i in order:
            W.add(specs[i])
        if node_id in W.failed:
            return ("build_failed", W.failed[node_id]), W
        for a in catalog.q_nodes(q or {}):
            if a in W.failed:
                return ("build_failed", W.failed[a]), W
        if q is None:
            return ("built",), W
        try:
            out = catalog.perform(W.env, node_id, q, world=W, node_id=node_id)
            tree = compare.canon(out)
        except Exception as e:  # noqa: BLE001
            tree = ("exc", type(e).__name__)
        owned_changed = [(r[0], r[1]) for r in W.check_owned()]
        if owned_changed:
            return ("owned_changed", tree, tuple(owned_changed)), W
        return tree, W

    before = seams.globals_fingerprint()
    tree, _ = once()
    after = seams.globals_fingerprint()
    info = {"globals_changed": seams.diff_fingerprints(before, after)}
    if twice:
        tree2, _ = once()
        info["repeat_equal"] = compare.digest(tree2) == compare.digest(tree)
    return tree, info


class ForkReference:
    def __init__(self):
        self.p2c_r, self.p2c_w = os.pipe()
        self.c2p_r, self.c2p_w = os.pipe()
        sys.stdout.flush()
        sys.stderr.flush()
        self.pid = os.fork()
        if self.pid == 0:
            try:
                os.close(self.p2c_w)
                os.close(self.c2p_r)
                self._serve()
            finally:
                os._exit(0)
        os.close(self.p2c_r)
        os.close(self.c2p_w)
        self.requests = 0

    # ---- server side (pristine; never runs a library operation itself)
    def _serve(self):
        specs = {}
        while True:
            try:
                msg = _recv(self.p2c_r)
            except EOFError:
                return
            kind = msg[0]
            if kind == "spec":
                specs[msg[1]["id"]] = msg[1]
            elif kind == "quit":
                return
            elif kind == "read":
                _, node_id, q, twice = msg
                wpid = os.fork()
                if wpid == 0:
                    code = 0
                    try:
                        try:
                            out = ("ok",) + twin_read(specs, node_id, q, twice)
                        except BaseException:  # noqa: BLE001
                            out = ("error", traceback.format_exc())
                        _send(self.c2p_w, out)
                    except BaseException:  # noqa: BLE001
                        code = 3
                    finally:
                        os._exit(code)
                _, st = os.waitpid(wpid, 0)
                if st != 0:
                    try:
                        _send(self.c2p_w, ("error", f"reference worker exited with status {st}"))
                    except Exception:  # noqa: BLE001
                        return

    # ---- client side
    def add_spec(self, spec):
        _send(self.p2c_w, ("spec", spec))

    def read(self, node_id, q, twice=False):
        self.requests += 1
        _send(self.p2c_w, ("read", node_id, q, twice))
        out = _recv(self.c2p_r)
        if out[0] != "ok":
            raise RuntimeError("reference executor failed: " + str(out[1]))
        return out[1], out[2]

    def close(self):
        try:
            _send(self.p2c_w, ("quit",))
        except Exception:  # noqa: BLE001
            pass
        for fd in (self.p2c_w, self.c2p_r):
            try:
                os.close(fd)
            except OSError:
                pass
        try:
            os.waitpid(self.pid, 0)
        except ChildProcessError:
            pass


class InprocReference:
    """Same logic without the wall (debugging only): shares process-global state with the system under test."""

    def __init__(self):
        self.specs = {}
        self.requests = 0

    def add_spec(self, spec):
        self.specs[spec["id"]] = spec

    def read(self, node_id, q, twice=False):
        import numpy as np

        self.requests += 1
        state = np.random.get_state()
        cwd = os.getcwd()
        try:
            return twin_read(self.specs, node_id, q, twice)
        finally:
            np.random.set_state(state)
            os.chdir(cwd)

    def close(self):
        pass
