"""
Process bootstrap: everything that must happen BEFORE `import autoarray`.

 * single-threaded BLAS / OpenMP (seam S11),
 * fixed PYTHONHASHSEED (seam S12; re-exec when it is not set),
 * the working directory is an empty scratch directory while autoconf is imported, because autoconf
   captures `os.getcwd()/config` as the highest-priority config directory at import time (seam S7),
 * the config stack is then rebuilt explicitly as [<repo>/autoarray/config, /verif/sim/config_extras].

`REPO` is `$VERIF_REPO` (default /repo): the checks always import the current working tree.
"""
import os
import sys
import tempfile
import shutil

VERIF = os.path.dirname(os.path.dirname(os.path.dirname(os.path.abspath(__file__))))
REPO = os.environ.get("VERIF_REPO", "/repo")

_THREAD_VARS = (
    "OMP_NUM_THREADS",
    "OPENBLAS_NUM_THREADS",
    "MKL_NUM_THREADS",
    "NUMEXPR_NUM_THREADS",
    "VECLIB_MAXIMUM_THREADS",
)


def ensure_env():
    """Re-exec the interpreter once with the environment the simulation needs."""
    want = {v: "1" for v in _THREAD_VARS}
    want["PYTHONHASHSEED"] = os.environ.get("VERIF_HASHSEED", "0")
    want["PYTHONDONTWRITEBYTECODE"] = "1"
    want["PYTHONWARNINGS"] = "ignore"
    want["NUMBA_DISABLE_JIT"] = "1"
    if all(os.environ.get(k) == v for k, v in want.items()):
        return
    env = dict(os.environ)
    env.update(want)
    pp = [p for p in env.get("PYTHONPATH", "").split(os.pathsep) if p]
    for p in (REPO, VERIF):
        if p not in pp:
            pp.insert(0, p)
    env["PYTHONPATH"] = os.pathsep.join(pp)
    os.execve(sys.executable, [sys.executable] + sys.argv, env)


_scratch_root = None


def scratch_root():
    """A private scratch directory (tmpfs when available), removed at interpreter exit by the owner pid."""
    global _scratch_root
    if _scratch_root is None:
        base = os.environ.get("VERIF_SCRATCH")
        if not base:
            base = "/dev/shm" if os.path.isdir("/dev/shm") and os.access("/dev/shm", os.W_OK) else tempfile.gettempdir()
        os.makedirs(base, exist_ok=True)
        _scratch_root = tempfile.mkdtemp(prefix="paa-verif-", dir=base)
        owner = os.getpid()
        import atexit

        def _cleanup(path=_scratch_root, owner=owner):
            if os.getpid() == owner:
                shutil.rmtree(path, ignore_errors=True)

        atexit.register(_cleanup)
    return _scratch_root


_booted = False
PYLOPS_STANDIN = False


def install_pylops_standin():
    """
    `pylops` is not installed here, and without it TransformerDFT refuses to construct (its base class is a placeholder),
    which removes interferometer datasets and inversions from every world.  A 3-line stand-in for the ONE thing the
    library needs from pylops at construction time - a `LinearOperator` base class - makes TransformerDFT, Interferometer
    and InversionInterferometerMapping real, running their own numpy code.  pylops' solvers (lop.py) are NOT provided and
    never exercised.  Declared as a stub in every evidence file of the system that uses it.
    """
    global PYLOPS_STANDIN
    import types

    if "pylops" in sys.modules:
        return
    mod = types.ModuleType("pylops")

    class LinearOperator:
        def __init__(self, *args, **kwargs):
            pass

    mod.LinearOperator = LinearOperator
    mod.__verif_standin__ = True
    sys.modules["pylops"] = mod
    PYLOPS_STANDIN = True


def boot(pylops_standin=False):
    """Import autoarray from REPO under a controlled config stack. Idempotent."""
    global _booted
    if _booted:
        return
    if pylops_standin or os.environ.get("VERIF_PYLOPS_STANDIN") == "1":
        install_pylops_standin()
    for p in (VERIF, REPO):
        if p in sys.path:
            sys.path.remove(p)
        sys.path.insert(0, p)
    import warnings
    import logging

    warnings.simplefilter("ignore")
    logging.disable(logging.CRITICAL)

    empty = os.path.join(scratch_root(), "empty-cwd")
    os.makedirs(empty, exist_ok=True)
    os.chdir(empty)

    # silence the numba banner the library prints on import
    import io
    import contextlib

    with contextlib.redirect_stdout(io.StringIO()):
        import autoarray  # noqa: F401
    from autoconf import conf
    from autoconf.conf import RecursiveConfig

    real = os.path.realpath(autoarray.__file__)
    if not real.startswith(os.path.realpath(REPO) + os.sep):
        raise RuntimeError(f"autoarray imported from {real}, expected under {REPO}")

    conf.instance.configs = [
        RecursiveConfig(os.path.join(REPO, "autoarray", "config")),
        RecursiveConfig(os.path.join(VERIF, "sim", "config_extras")),
    ]
    logging.disable(logging.CRITICAL)
    _booted = True


def set_conf(section_path, value):
    """conf.instance['general'][a][b] = value"""
    from autoconf import conf

    node = conf.instance
    for key in section_path[:-1]:
        node = node[key]
    node[section_path[-1]] = value


def get_conf(section_path):
    from autoconf import conf

    node = conf.instance
    for key in section_path:
        node = node[key]
    return node
