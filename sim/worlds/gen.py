"""
Seeded world generator: recipes (lists of node specs) for the purity (C11) and preloads (C15) systems.
Swarm style - every run draws its own sizes, node kinds and knob values.  Raw arrays are stored explicitly in
the recipe (hex floats / bit strings), so a replay file is self-contained and independent of this generator.
"""
import math

from sim.core import prng


def hx(rng, n, style="normal", lo=0.05):
    out = []
    for _ in range(n):
        if style == "normal":
            v = rng.gauss(0.0, 1.0)
        elif style == "positive":
            v = abs(rng.gauss(0.0, 1.0)) + lo
        elif style == "noise":
            v = rng.uniform(0.5, 2.5)
        elif style == "unit":
            v = rng.uniform(-1.0, 1.0)
        elif style == "data":
            v = rng.gauss(1.0, 1.5)
        elif style == "data0":
            # mixed sign with exact zeros (weight maps with dead pixels, background-subtracted images)
            v = 0.0 if rng.random() < 0.25 else rng.gauss(0.5, 1.5)
        else:
            raise ValueError(style)
        out.append(prng.fhex(v))
    return out


def mask_bits(rng, h, w, style, margin=0):
    cy, cx = (h - 1) / 2.0, (w - 1) / 2.0
    r_out = min(h, w) / 2.0 - margin - 0.3
    extra = None
    if style == "band":
        extra = (rng.choice([1, -1, -1, 2, -2]), rng.randrange(2, max(3, w // 2 + 2)))
    elif style == "ellipse":
        extra = (rng.choice([0.5, 1.0, 2.2, -0.6]), rng.choice([0.35, 0.5, 0.7]))
    elif style == "blobs":
        extra = (rng.choice([1.0, 1.5, 2.0]), rng.choice([1.0, 1.5]))
    bits = []
    for y in range(h):
        for x in range(w):
            inside = margin <= y < h - margin and margin <= x < w - margin
            d = math.hypot(y - cy, x - cx)
            if style == "all_false":
                m = 0
            elif style == "interior":
                m = 0 if inside else 1
            elif style == "circular":
                m = 0 if d <= r_out else 1
            elif style == "annular":
                m = 0 if (r_out / 2.5) <= d <= r_out else 1
            elif style == "random":
                m = 0 if (inside and rng.random() < 0.6) else 1
            elif style == "sparse":
                m = 0 if (inside and rng.random() < 0.3) else 1
            elif style == "band":
                # a left- or right-leaning band (parallelogram): consecutive rows of unmasked pixels are STAGGERED, not stacked
                lean = extra[0]
                start = (margin + lean * (y - margin)) if lean > 0 else (w - margin - extra[1] + lean * (y - margin))
                m = 0 if (inside and start <= x < start + extra[1]) else 1
            elif style == "ellipse":
                # a tilted ellipse
                c, sn = math.cos(extra[0]), math.sin(extra[0])
                u, v = (y - cy) * c + (x - cx) * sn, -(y - cy) * sn + (x - cx) * c
                m = 0 if (inside and (u / max(r_out, 1.0)) ** 2 + (v / max(r_out * extra[1], 0.6)) ** 2 <= 1.0) else 1
            elif style == "blobs":
                # two diagonally offset blobs
                d1 = math.hypot(y - (cy - extra[0]), x - (cx - extra[0]))
                d2 = math.hypot(y - (cy + extra[0]), x - (cx + extra[0]))
                m = 0 if (inside and min(d1, d2) <= extra[1]) else 1
            else:
                raise ValueError(style)
            bits.append(m)
    if all(bits):
        bits[(h // 2) * w + (w // 2)] = 0
    return "".join(str(b) for b in bits)


REGS_ANY = [
    ("Constant", lambda r: {"coefficient": r.choice([0.1, 1.0, 2.5])}),
    ("ConstantZeroth", lambda r: {"coefficient_neighbor": r.choice([0.5, 1.0]), "coefficient_zeroth": r.choice([0.1, 1.0])}),
    ("Zeroth", lambda r: {"coefficient": r.choice([0.2, 1.0])}),
    ("GaussianKernel", lambda r: {"coefficient": r.choice([0.5, 1.0]), "scale": r.choice([0.5, 1.0])}),
    ("ExponentialKernel", lambda r: {"coefficient": r.choice([0.5, 1.0]), "scale": r.choice([0.5, 1.0])}),
]
REGS_ADAPT = [
    ("AdaptiveBrightness", lambda r: {"inner_coefficient": r.choice([0.1, 1.0]), "outer_coefficient": r.choice([1.0, 5.0]), "signal_scale": r.choice([0.5, 1.0])}),
    ("BrightnessZeroth", lambda r: {"coefficient": r.choice([0.5, 1.0]), "signal_scale": r.choice([0.5, 1.0])}),
]
REGS_SPLIT = [
    ("ConstantSplit", lambda r: {"coefficient": r.choice([0.5, 1.0])}),
    ("AdaptiveBrightnessSplit", lambda r: {"inner_coefficient": r.choice([0.1, 1.0]), "outer_coefficient": r.choice([1.0, 5.0]), "signal_scale": r.choice([0.5, 1.0])}),
]


def gen_reg(rng, mesh_kind, has_adapt, allow_none=True):
    if allow_none and rng.random() < 0.15:
        return None
    pool = list(REGS_ANY)
    if has_adapt:
        pool += REGS_ADAPT
    if mesh_kind == "delaunay":
        pool += [r for r in REGS_SPLIT if has_adapt or r[0] == "ConstantSplit"]
    name, f = rng.choice(pool)
    return [name, f(rng)]


def n_unmasked(bits):
    return bits.count("0")


class Recipe:
    def __init__(self):
        self.nodes = []
        self.counter = {}

    def new_id(self, prefix):
        k = self.counter.get(prefix, 0)
        self.counter[prefix] = k + 1
        return f"{prefix}{k}"

    def add(self, prefix, spec):
        spec = dict(spec)
        spec["id"] = self.new_id(prefix)
        self.nodes.append(spec)
        return spec["id"]


def ref(i):
    return {"$node": i}


def scales(rng, aniso_ok=True):
    s = rng.choice([0.5, 1.0, 1.0, 2.0, 0.1])
    if aniso_ok and rng.random() < 0.2:
        return [s, rng.choice([0.25, 1.5, 3.0])]
    return [s, s]


def gen_mapper_spec(rw, rv, mask_id, shape, ps, adapt_id=None, profile=False):
    kind = rw.choice(["rectangular", "rectangular", "delaunay"])
    if kind == "rectangular":
        mesh = {"kind": "rectangular", "shape": [rw.randrange(3, 5), rw.randrange(3, 5)]}
    else:
        npts = rw.randrange(5, 11)
        hy, hx_ = shape[0] * ps[0] / 2.0, shape[1] * ps[1] / 2.0
        pts = []
        for _ in range(npts):
            pts += [prng.fhex(rv.uniform(-hy, hy)), prng.fhex(rv.uniform(-hx_, hx_))]
        mesh = {"kind": "delaunay", "points": pts, "image_plane": rw.random() < 0.3}
    return {
        "kind": "mapper",
        "mask": ref(mask_id),
        "sub_size": rw.choice([1, 1, 2]),
        "mesh": mesh,
        "reg": gen_reg(rw, kind, adapt_id is not None),
        "border": rw.random() < 0.3,
        "adapt": ref(adapt_id) if adapt_id else None,
        "profile": profile,
    }


def gen_purity_world(rw, rv, knobs):
    """-> list of node specs.  rw = `world` stream (structure), rv = `values` stream (array entries)."""
    R = Recipe()
    want = knobs["templates"]
    h, w = rw.randrange(5, 10), rw.randrange(5, 10)
    ps = scales(rw)
    if rw.random() < 0.15:
        # the same geometry in small units (radians rather than arc-seconds): anything with an absolute tolerance or a rounded key
        # behaves differently there
        ps = [p_ * 4.848e-6 for p_ in ps]
    origin = [0.0, 0.0] if rw.random() < 0.7 else [rw.choice([-1.0, 0.5, 2.0]), rw.choice([-0.5, 1.0])]
    margin = rw.choice([1, 1, 2]) if min(h, w) >= 7 else 1
    style = rw.choice(["interior", "circular", "annular", "random", "random", "sparse", "band", "ellipse", "blobs"])
    if "image_mesh" in want and rw.random() < 0.6:
        # what the Hilbert image-mesh is specified for: a circular mask on a square frame with one pixel scale
        w = h
        ps = [ps[0], ps[0]]
        style = "circular"
    m0_bits = mask_bits(rw, h, w, style, margin)
    m0 = R.add("m", {"kind": "mask2d", "shape": [h, w], "bits": m0_bits, "pixel_scales": ps, "origin": origin})
    mf = R.add("m", {"kind": "mask2d", "shape": [h, w], "bits": "0" * (h * w), "pixel_scales": ps, "origin": origin})
    n0 = n_unmasked(m0_bits)
    profile = knobs.get("profile_on", False)

    if "structures" in want:
        # a second, smaller mask with its own geometry for stand-alone structures
        h2, w2 = rw.randrange(1, 7), rw.randrange(1, 7)
        m2_bits = mask_bits(rw, h2, w2, rw.choice(["random", "all_false", "sparse"]), 0)
        m2 = R.add("m", {"kind": "mask2d", "shape": [h2, w2], "bits": m2_bits, "pixel_scales": scales(rw), "origin": [0.0, 0.0]})
        n2 = n_unmasked(m2_bits)
        if h2 != w2 and rw.random() < 0.6:
            # a geometry twin: the SAME flat pattern of booleans in the transposed shape (anything keyed on the mask's bytes alone
            # confuses the two)
            mt = R.add("m", {"kind": "mask2d", "shape": [w2, h2], "bits": m2_bits, "pixel_scales": scales(rw), "origin": [0.0, 0.0]})
            R.add("g", {"kind": "grid2d", "mask": ref(mt), "mode": "from_mask", "over": None})
            R.add("a", {"kind": "array2d", "mask": ref(mt), "input": "slim", "values": hx(rv, n2, "data")})
            R.add("a", {"kind": "array2d", "mask": ref(m2), "input": "slim", "values": hx(rv, n2, "data")})
        for _ in range(rw.randrange(2, 6)):
            k = rw.choice(["array2d", "grid2d", "grid2d", "grid2d_values", "vector", "kernel", "vis", "array1d", "irregular", "array2d", "operators", "mask_ctor", "kernel_gaussian", "mesh"])
            mid, bits_, hh, ww, nn = rw.choice([(m0, m0_bits, h, w, n0), (m2, m2_bits, h2, w2, n2)])
            if k == "array2d":
                vstyle = rw.choice(["data", "data", "data0", "positive"])
                if rw.random() < 0.5:
                    R.add("a", {"kind": "array2d", "mask": ref(mid), "input": "native", "values": hx(rv, hh * ww, vstyle), "store_native": rw.random() < 0.3})
                else:
                    R.add("a", {"kind": "array2d", "mask": ref(mid), "input": "slim", "values": hx(rv, nn, vstyle), "store_native": rw.random() < 0.3})
            elif k == "grid2d":
                over = rw.choice([None, None, {"uniform": 2}, {"uniform": 1}, {"perpix": [rw.choice([1, 2, 3]) for _ in range(nn)]}, {"iterate": [2, 4]},
                                  {"iterate": [2, 4, 8], "accuracy": 0.99}, {"iterate": [2, 4, 8], "accuracy": 0.999}])
                R.add("g", {"kind": "grid2d", "mask": ref(mid), "mode": "from_mask", "over": over})
            elif k == "mesh":
                # a stand-alone source-plane mesh (a structure like any other: it can be shifted, scaled, copied and interpolated)
                mesh_kind = rw.choice(["delaunay", "delaunay", "voronoi"])
                R.add("mg", {"kind": "mesh_grid", "mask": ref(mid), "sub_size": 1,
                             "mesh": {"kind": mesh_kind, "points": [prng.fhex(rv.uniform(-2.0, 2.0)) for _ in range(2 * rw.randrange(4, 9))]}})
            elif k == "grid2d_values":
                mode = rw.choice(["native", "slim"])
                n = hh * ww * 2 if mode == "native" else nn * 2
                R.add("g", {"kind": "grid2d", "mask": ref(mid), "mode": mode, "values": hx(rv, n, "normal"), "over": rw.choice([None, {"uniform": 2}])})
            elif k == "vector":
                mode = rw.choice(["native", "slim"])
                n = hh * ww * 2 if mode == "native" else nn * 2
                R.add("v", {"kind": "vector_yx2d", "mask": ref(mid), "mode": mode, "values": hx(rv, n, "normal")})
            elif k == "kernel":
                ks = [rw.choice([1, 3, 5]), rw.choice([1, 3, 5])]
                R.add("k", {"kind": "kernel2d", "shape": ks, "values": hx(rv, ks[0] * ks[1], rw.choice(["positive", "normal"])), "pixel_scales": ps, "normalize": rw.random() < 0.5})
            elif k == "vis":
                n = rw.randrange(2, 8)
                R.add("vis", {"kind": "visibilities", "re": hx(rv, n), "im": hx(rv, n), "noise_map": rw.random() < 0.3})
            elif k == "array1d":
                n = rw.randrange(2, 9)
                b = mask_bits(rw, 1, n, rw.choice(["random", "all_false"]))
                m1 = R.add("m1d", {"kind": "mask1d", "bits": b, "pixel_scales": [rw.choice([0.5, 1.0])]})
                R.add("a1d", {"kind": "array1d", "mask": ref(m1), "values": hx(rv, n_unmasked(b), "data")})
                if rw.random() < 0.5:
                    R.add("g1d", {"kind": "grid1d", "mask": ref(m1)})
            elif k == "mask_ctor":
                hh2, ww2 = rw.randrange(4, 10), rw.randrange(4, 10)
                ps2 = rw.choice([0.5, 1.0, 2.0])
                ctor = rw.choice(["circular", "circular_annular", "elliptical", "elliptical_annular"])
                cen = [rw.choice([0.0, 0.5, -1.0]), rw.choice([0.0, 1.0])]
                base = {"shape_native": [hh2, ww2], "pixel_scales": ps2, "centre": cen, "invert": rw.random() < 0.15}
                if rw.random() < 0.3:
                    base["origin"] = [rw.choice([0.5, -1.0]), rw.choice([0.0, 2.0])]
                r0 = min(hh2, ww2) * ps2 / 2.0
                if ctor == "circular":
                    base.update(radius=r0 * rw.choice([0.5, 0.8]))
                elif ctor == "circular_annular":
                    base.update(inner_radius=r0 * 0.3, outer_radius=r0 * 0.8)
                elif ctor == "elliptical":
                    base.update(major_axis_radius=r0 * 0.8, axis_ratio=rw.choice([0.4, 0.7]), angle=rw.choice([0.0, 30.0, 100.0]))
                else:
                    base.update(inner_major_axis_radius=r0 * 0.3, inner_axis_ratio=0.6, inner_phi=20.0, outer_major_axis_radius=r0 * 0.85, outer_axis_ratio=0.7, outer_phi=rw.choice([20.0, 70.0]))
                mc = R.add("m", {"kind": "mask2d_ctor", "ctor": ctor, "kw": base})
                R.add("g", {"kind": "grid2d", "mask": ref(mc), "mode": "from_mask", "over": rw.choice([None, {"uniform": 2}])})
            elif k == "kernel_gaussian":
                ks = [rw.choice([3, 5]), rw.choice([3, 5])]
                R.add("k", {"kind": "kernel_gaussian", "kw": {"shape_native": ks, "pixel_scales": rw.choice([0.5, 1.0]), "sigma": rw.choice([0.5, 1.0, 2.0]),
                                                               "axis_ratio": rw.choice([1.0, 0.6]), "angle": rw.choice([0.0, 45.0]), "normalize": rw.random() < 0.5}})
            elif k == "operators":
                sub = rw.choice([1, 2, [rw.choice([1, 2]) for _ in range(nn)]])
                R.add("os", {"kind": "over_sampler", "mask": ref(mid), "sub_size": sub})
                if rw.random() < 0.6:
                    R.add("br", {"kind": "border_relocator", "mask": ref(mid), "sub_size": sub})
            elif k == "irregular":
                n = rw.randrange(2, 7)
                R.add("gi", {"kind": "grid2d_irregular", "values": hx(rv, 2 * n)})
                if rw.random() < 0.5:
                    R.add("ai", {"kind": "array_irregular", "values": hx(rv, n)})

    ds_masked = None
    if "dataset" in want or "inversion" in want:
        native_ds = rw.random() < 0.3
        d0 = R.add("a", {"kind": "array2d", "mask": ref(mf), "input": "native", "values": hx(rv, h * w, "data"), "store_native": native_ds})
        nz = R.add("a", {"kind": "array2d", "mask": ref(mf), "input": "native", "values": hx(rv, h * w, "noise"), "store_native": native_ds and rw.random() < 0.8})
        kmax = 2 * margin + 1
        ks = [rw.choice([k for k in (1, 3, 5) if k <= kmax]), rw.choice([k for k in (1, 3, 5) if k <= kmax])]
        if rw.random() < 0.6:
            ks = [max(ks), max(ks)]
        psf = R.add("k", {"kind": "kernel2d", "shape": ks, "values": hx(rv, ks[0] * ks[1], "positive"), "pixel_scales": ps, "normalize": rw.random() < 0.5})
        over = rw.choice([None, None, {"uniform": {"uniform": 2}, "pixelization": {"uniform": 1}}, {"pixelization": {"uniform": 2}}])
        ds_spec = {"kind": "imaging", "data": ref(d0), "noise": ref(nz), "psf": ref(psf), "over": over}
        if rw.random() < 0.2 and h * w <= 64:
            # correlated noise: a caller-owned covariance matrix (C- or Fortran-ordered, as scipy / pandas hand them out)
            ds_spec["cov"] = hx(rv, (h * w) ** 2, "unit")
            ds_spec["cov_order"] = rw.choice(["C", "F", "F"])
        if rw.random() < 0.15:
            ds_spec["use_normalized_psf"] = False
        ds0 = R.add("ds", ds_spec)
        ds_masked = R.add("ds", {"kind": "derive", "src": ref(ds0), "q": {"t": "call", "name": "apply_mask", "kw": {"mask": ref(m0)}}})
        if rw.random() < 0.3:
            R.add("cv", {"kind": "convolver", "mask": ref(m0), "kernel": ref(psf)})
        if rw.random() < 0.3:
            # a noise-scaled version of the dataset (a region down-weighted before fitting), derived from the unmasked or the masked one
            R.add("ds", {"kind": "derive", "src": ref(ds0 if rw.random() < 0.6 else ds_masked),
                         "q": {"t": "call", "name": "apply_noise_scaling", "kw": {"mask": ref(m0), "noise_value": rw.choice([1.0e8, 50.0])}}})
        if rw.random() < 0.35:
            # an over-sampling request the caller keeps and hands to one dataset after another; slots left out fall back to the dataset's
            slots = {k: rw.randrange(1, 4) for k in rw.sample(["uniform", "non_uniform", "pixelization"], rw.randrange(1, 3))}
            R.add("rq", {"kind": "over_request", "slots": slots})
        if rw.random() < 0.25:
            # the same data as a dataset built DIRECTLY from masked arrays (no apply_mask step in between), PSF normalised or not
            dm_ = R.add("a", {"kind": "array2d", "mask": ref(m0), "input": "slim", "values": hx(rv, n0, "data")})
            nm_ = R.add("a", {"kind": "array2d", "mask": ref(m0), "input": "slim", "values": hx(rv, n0, "noise")})
            R.add("ds", {"kind": "imaging", "data": ref(dm_), "noise": ref(nm_), "psf": ref(psf), "over": over, "use_normalized_psf": rw.random() < 0.5})

    if "inversion" in want and ds_masked is not None:
        adapt = None
        if rw.random() < 0.5:
            adapt = R.add("a", {"kind": "array2d", "mask": ref(m0), "input": "slim", "values": hx(rv, n0, rw.choice(["positive", "data", "data0"]))})
        objs = []
        for _ in range(rw.randrange(1, 3)):
            if rw.random() < 0.75:
                objs.append(R.add("mp", gen_mapper_spec(rw, rv, m0, (h, w), ps, adapt, profile)))
            else:
                cols = rw.randrange(1, 3)
                objs.append(R.add("fl", {"kind": "func_list", "mask": ref(m0), "columns": cols, "matrix": hx(rv, n0 * cols, "positive"), "reg": (["Constant", {"coefficient": rw.choice([0.5, 2.0])}] if rw.random() < 0.3 else None), "override": hx(rv, n0 * cols, "positive") if rw.random() < 0.35 else None}))
        if rw.random() < 0.25:
            # two hand-assembled mappers that SHARE one mesh-grid object and one regularization object but see different adapt data
            mk = rw.choice(["rectangular", "delaunay"])
            if mk == "rectangular":
                mesh_spec = {"kind": "rectangular", "shape": [rw.randrange(3, 5), rw.randrange(3, 5)]}
            else:
                hy, hx_ = h * ps[0] / 2.0, w * ps[1] / 2.0
                mesh_spec = {"kind": "delaunay", "points": [prng.fhex(rv.uniform(-hy, hy)) if i % 2 == 0 else prng.fhex(rv.uniform(-hx_, hx_)) for i in range(2 * rw.randrange(5, 9))]}
            mesh_node = R.add("mg", {"kind": "mesh_grid", "mask": ref(m0), "sub_size": 1, "mesh": mesh_spec})
            adapt_b = R.add("a", {"kind": "array2d", "mask": ref(m0), "input": "slim", "values": hx(rv, n0, "positive")})
            adapt_a = adapt or R.add("a", {"kind": "array2d", "mask": ref(m0), "input": "slim", "values": hx(rv, n0, "positive")})
            reg_node = R.add("rg", {"kind": "regularization", "reg": gen_reg(rw, mk, True, allow_none=False)})
            ms_a = R.add("mp", {"kind": "mapper_shared", "mask": ref(m0), "mesh_grid": ref(mesh_node), "regularization": ref(reg_node), "adapt": ref(adapt_a)})
            ms_b = R.add("mp", {"kind": "mapper_shared", "mask": ref(m0), "mesh_grid": ref(mesh_node), "regularization": ref(reg_node), "adapt": ref(adapt_b)})
            if rw.random() < 0.5:
                objs.append(ms_a)
        rw.shuffle(objs)
        settings = None
        if rw.random() < 0.6:
            kw = {"use_w_tilde": rw.random() < 0.5}
            if rw.random() < 0.4:
                kw["use_positive_only_solver"] = rw.random() < 0.6
            if rw.random() < 0.4:
                kw["force_edge_pixels_to_zeros"] = False
            if rw.random() < 0.2:
                kw["positive_only_uses_p_initial"] = rw.random() < 0.7
            if rw.random() < 0.15:
                kw["force_edge_image_pixels_to_zeros"] = True
                if rw.random() < 0.8:
                    kw["image_pixels_source_zero"] = sorted(rw.sample(range(n0), min(n0, rw.randrange(1, 4))))
            settings = R.add("st", {"kind": "settings", "kw": kw})
        inv = R.add("inv", {"kind": "inversion", "dataset": ref(ds_masked), "objs": [ref(o) for o in objs], "settings": ref(settings) if settings else None, "profile": profile})
        if rw.random() < 0.6:
            fit_spec = {"kind": "fit_imaging", "dataset": ref(ds_masked), "inversion": ref(inv), "use_mask_in_fit": rw.random() < 0.3}
            if rw.random() < 0.3:
                fit_spec["dataset_model"] = {"background_sky_level": rw.choice([0.0, 0.2]), "grid_offset": [rw.choice([0.0, 0.5]), rw.choice([0.0, -1.0])]}
            R.add("fit", fit_spec)
            if rw.random() < 0.35:
                # a second fit of the SAME dataset object whose noise-map is scaled (the documented override): whatever depends on the
                # fit's noise-map must not be remembered per dataset
                scaled = R.add("a", {"kind": "array2d", "mask": ref(m0), "input": "slim", "values": hx(rv, n0, "noise")})
                R.add("fit", dict(fit_spec, noise_map=ref(scaled), use_mask_in_fit=rw.random() < 0.2))
            if rw.random() < 0.5:
                # a second, identical inversion + fit and an empty Preloads: the Preloads.set_*(fit_0, fit_1) helpers as query calls
                inv_b = R.add("inv", {"kind": "inversion", "dataset": ref(ds_masked), "objs": [ref(o) for o in objs], "settings": ref(settings) if settings else None})
                R.add("fit", {"kind": "fit_imaging", "dataset": ref(ds_masked), "inversion": ref(inv_b)})
                R.add("pl", {"kind": "preloads", "kw": {}})
        if rw.random() < 0.3:
            # the same dataset presented through a DatasetInterface with DIFFERENT data (e.g. a foreground-subtracted image) that
            # shares the dataset's operators and w-tilde table, and an inversion on it
            parts = {}
            for name in ("data", "noise_map", "grids", "convolver", "w_tilde"):
                parts[name] = R.add("dp", {"kind": "derive", "src": ref(ds_masked), "q": {"t": "prop", "name": name}})
            data_b = R.add("dp", {"kind": "derive", "src": ref(parts["data"]), "q": {"t": "op", "name": rw.choice(["mul", "sub"]), "other": rw.choice([0.5, 2.0])}})
            di = R.add("di", {"kind": "dataset_interface", "data": ref(data_b), "noise": ref(parts["noise_map"]), "grids": ref(parts["grids"]),
                              "convolver": ref(parts["convolver"]), "w_tilde": ref(parts["w_tilde"])})
            R.add("inv", {"kind": "inversion", "dataset": ref(di), "objs": [ref(o) for o in objs], "settings": ref(settings) if settings else None})
        if rw.random() < 0.3:
            # an inversion that is handed a Preloads whose slots were harvested (by reference, as Preloads.set_* does) from a second,
            # identical and afterwards quiescent inversion - including the internal mapper slots set_curvature_matrix fills
            src2 = R.add("inv", {"kind": "inversion", "dataset": ref(ds_masked), "objs": [ref(o) for o in objs], "settings": ref(settings) if settings else None})
            kwp = {}
            for slot in PUBLIC_SLOTS[1:]:
                if rw.random() < 0.4:
                    kwp[slot] = {"$attr": [src2, slot]}
            if any(o.startswith("mp") for o in objs) and rw.random() < 0.6:
                kwp["curvature_matrix_mapper_diag"] = {"$attr": [src2, "_curvature_matrix_mapper_diag"]}
                kwp["data_vector_mapper"] = {"$attr": [src2, "_data_vector_mapper"]}
                kwp.pop("curvature_matrix", None)
            plh = R.add("pl", {"kind": "preloads", "kw": kwp})
            R.add("inv", {"kind": "inversion", "dataset": ref(ds_masked), "objs": [ref(o) for o in objs], "settings": ref(settings) if settings else None, "preloads": ref(plh)})
        mappers = [o for o in objs if o.startswith("mp")]
        if mappers and rw.random() < 0.7:
            mp = rw.choice(mappers)
            spec = next(s for s in R.nodes if s["id"] == mp)
            mesh_of = spec["mesh"] if "mesh" in spec else next(s for s in R.nodes if s["id"] == spec["mesh_grid"]["$node"])["mesh"]
            npix = mesh_of["shape"][0] * mesh_of["shape"][1] if mesh_of["kind"] == "rectangular" else len(mesh_of["points"]) // 2
            if len(objs) == 1 and rw.random() < 0.6:
                values = {"from": ref(inv), "prop": "reconstruction"}
            else:
                values = {"raw": hx(rv, npix, "positive")}
            mpm = None
            if rw.random() < 0.7:
                mpm = "".join("1" if rw.random() < 0.3 else "0" for _ in range(npix))
            R.add("mv", {"kind": "mapper_valued", "mapper": ref(mp), "values": values, "mesh_pixel_mask": mpm})
        if rw.random() < 0.3:
            model = R.add("a", {"kind": "array2d", "mask": ref(m0), "input": "slim", "values": hx(rv, n0, "data")})
            R.add("fit", {"kind": "fit_imaging", "dataset": ref(ds_masked), "model": ref(model)})
            if rw.random() < 0.5:
                scaled = R.add("a", {"kind": "array2d", "mask": ref(m0), "input": "slim", "values": hx(rv, n0, "noise")})
                R.add("fit", {"kind": "fit_imaging", "dataset": ref(ds_masked), "model": ref(model), "noise_map": ref(scaled)})

    if "simulator" in want:
        ks = [rw.choice([1, 3]), rw.choice([1, 3])]
        kpsf = R.add("k", {"kind": "kernel2d", "shape": ks, "values": hx(rv, ks[0] * ks[1], "positive"), "pixel_scales": ps, "normalize": False})
        img = R.add("a", {"kind": "array2d", "mask": ref(mf), "input": "native", "values": hx(rv, h * w, "positive")})
        R.add("sim", {"kind": "simulator", "exposure_time": rw.choice([300.0, 1000.0]), "background_sky_level": rw.choice([0.0, 0.1, 1.0]), "psf": ref(kpsf) if rw.random() < 0.7 else None,
                      "noise_seed": rw.randrange(0, 1000), "add_poisson_noise_to_data": rw.random() < 0.8, "normalize_psf": rw.random() < 0.7})

    if "layout" in want:
        hl, wl = rw.randrange(5, 9), rw.randrange(5, 9)
        ml = R.add("m", {"kind": "mask2d", "shape": [hl, wl], "bits": "0" * (hl * wl), "pixel_scales": [1.0, 1.0], "origin": [0.0, 0.0]})
        R.add("a", {"kind": "array2d", "mask": ref(ml), "input": "native", "values": hx(rv, hl * wl, "data"), "store_native": rw.random() < 0.5})
        R.add("rg", {"kind": "region2d", "region": [0, rw.randrange(2, hl), rw.randrange(0, 2), rw.randrange(3, wl)]})
        R.add("ly", {"kind": "layout2d", "shape_2d": [hl, wl], "regions": {"serial_overscan": [0, hl - 1, wl - 1, wl], "serial_prescan": [0, hl, 0, 1], "parallel_overscan": [hl - 1, hl, 1, wl - 1]}})

    if "image_mesh" in want:
        adapt_im = R.add("a", {"kind": "array2d", "mask": ref(m0), "input": "slim", "values": hx(rv, n0, "positive")})
        for _ in range(rw.randrange(1, 3)):
            c = rw.choice(["Overlay", "Hilbert", "Hilbert", "KMeans"])
            if c == "Overlay":
                kw = {"shape": [rw.randrange(2, 5), rw.randrange(2, 5)]}
            else:
                kw = {"pixels": rw.randrange(3, max(4, min(9, n0))), "weight_floor": rw.choice([0.0, 0.1, 0.5]), "weight_power": rw.choice([0.0, 1.0, 2.0])}
            R.add("im", {"kind": "image_mesh", "cls": c, "kw": kw})

    if "interferometer" in want:
        nv = rw.randrange(4, 9)
        uv = [prng.fhex(rv.uniform(-2.0e5, 2.0e5)) for _ in range(2 * nv)]
        vd = R.add("vis", {"kind": "visibilities", "re": hx(rv, nv), "im": hx(rv, nv)})
        vn = R.add("vis", {"kind": "visibilities", "re": hx(rv, nv, "noise"), "im": hx(rv, nv, "noise"), "noise_map": True})
        over = rw.choice([None, None, {"pixelization": {"uniform": 1}}, {"uniform": {"uniform": 2}, "pixelization": {"uniform": 2}}])
        ifm = R.add("if", {"kind": "interferometer", "data": ref(vd), "noise": ref(vn), "uv": uv, "mask": ref(m0), "over": over})
        if rw.random() < 0.5:
            R.add("tr", {"kind": "transformer", "uv": list(uv), "mask": ref(m0), "preload_transform": rw.random() < 0.7})
        if rw.random() < 0.7:
            objs_i = [R.add("mp", gen_mapper_spec(rw, rv, m0, (h, w), ps, None, False)) for _ in range(rw.randrange(1, 3))]
            st = None
            if rw.random() < 0.5:
                st = R.add("st", {"kind": "settings", "kw": {"use_w_tilde": rw.random() < 0.5, "use_positive_only_solver": rw.random() < 0.5}})
            R.add("inv", {"kind": "inversion", "dataset": ref(ifm), "objs": [ref(o) for o in objs_i], "settings": ref(st) if st else None})

    if "triangles" in want:
        seen = set()
        coords = []
        for _ in range(rw.randrange(1, 7)):
            c = (rw.randrange(-3, 4), rw.randrange(-3, 4))
            if c not in seen:
                seen.add(c)
                coords += list(c)
        R.add("ct", {"kind": "coord_triangles", "coordinates": coords, "side_length": rw.choice([0.5, 1.0, 2.0]), "x_offset": rw.choice([0.0, 0.3]),
                     "y_offset": rw.choice([0.0, -0.2]), "flipped": rw.random() < 0.5})
        nv = rw.randrange(4, 8)
        verts = hx(rv, 2 * nv, "unit")
        tris = []
        for _ in range(rw.randrange(1, 5)):
            tris += rw.sample(range(nv), 3)
        R.add("at", {"kind": "array_triangles", "indices": tris, "vertices": verts})

    if "vis_interface" in want:
        n = rw.randrange(3, 7)
        vd = R.add("vis", {"kind": "visibilities", "re": hx(rv, n), "im": hx(rv, n)})
        vn = R.add("vis", {"kind": "visibilities", "re": hx(rv, n, "noise"), "im": hx(rv, n, "noise"), "noise_map": True})
        di = R.add("di", {"kind": "dataset_interface", "data": ref(vd), "noise": ref(vn)})
        mp = R.add("mp", gen_mapper_spec(rw, rv, m0, (h, w), ps, None, False))
        settings = None
        if rw.random() < 0.5:
            settings = R.add("st", {"kind": "settings", "kw": {"use_w_tilde": True}})
        R.add("inv", {"kind": "inversion", "dataset": ref(di), "objs": [ref(mp)], "settings": ref(settings) if settings else None})
    return R.nodes


# ---------------------------------------------------------------------------------------------------
# C15: the fixed template  dataset D + linear objects L + source inversion + one shared Preloads
# ---------------------------------------------------------------------------------------------------

PUBLIC_SLOTS = ["w_tilde", "curvature_matrix", "regularization_matrix", "log_det_regularization_matrix_term", "operated_mapping_matrix"]


def gen_preloads_world(rw, rv, knobs):
    """
    -> (nodes, meta).  Input space of C04: masks with footprint inside the frame, positive noise, data positive /
    zero-mean / negative, odd PSFs square and non-square (1..5 per axis), non-negative and signed, sub-size 1-2,
    1-3 linear objects of {rectangular mapper, Delaunay mapper, function list} in any order, each with a
    regularization of C07's list or none.
    """
    R = Recipe()
    ky, kx = rw.choice([1, 3, 3, 5]), rw.choice([1, 3, 3, 5])
    if rw.random() < 0.5:
        kx = ky
    my, mx = ky // 2, kx // 2
    h = rw.randrange(max(4, 2 * my + 3), max(5, 2 * my + 3) + 5)
    w = rw.randrange(max(4, 2 * mx + 3), max(5, 2 * mx + 3) + 5)
    ps = scales(rw, aniso_ok=False)
    if rw.random() < 0.1:
        ps = [p_ * 4.848e-6 for p_ in ps]  # small units (radians)
    style = rw.choice(["interior", "random", "circular", "band", "band", "band", "ellipse", "blobs"])
    # footprint of the kernel must stay inside the frame: margin per axis
    bits = []
    base = mask_bits(rw, h, w, style, 0)
    for y in range(h):
        for x in range(w):
            inside = my <= y < h - my and mx <= x < w - mx
            inside = inside and (y >= 1 and x >= 1 and y < h - 1 and x < w - 1)
            bits.append(base[y * w + x] if inside else "1")
    bits = "".join(bits)
    if n_unmasked(bits) < 3:
        bits = "".join("0" if (max(1, my) <= y < h - max(1, my) and max(1, mx) <= x < w - max(1, mx)) else "1" for y in range(h) for x in range(w))
    n0 = n_unmasked(bits)
    m0 = R.add("m", {"kind": "mask2d", "shape": [h, w], "bits": bits, "pixel_scales": ps, "origin": [0.0, 0.0]})
    mf = R.add("m", {"kind": "mask2d", "shape": [h, w], "bits": "0" * (h * w), "pixel_scales": ps, "origin": [0.0, 0.0]})
    data_style = rw.choice(["positive", "normal", "data"])
    d0 = R.add("a", {"kind": "array2d", "mask": ref(mf), "input": "native", "values": hx(rv, h * w, data_style)})
    if data_style == "positive" and rw.random() < 0.3:
        # negative data
        R.nodes[-1]["values"] = [prng.fhex(-prng.unhex(v)) for v in R.nodes[-1]["values"]]
    nz = R.add("a", {"kind": "array2d", "mask": ref(mf), "input": "native", "values": hx(rv, h * w, "noise")})
    signed = rw.random() < 0.35
    kvals = hx(rv, ky * kx, "normal" if signed else "positive")
    psf = R.add("k", {"kind": "kernel2d", "shape": [ky, kx], "values": kvals, "pixel_scales": ps, "normalize": False})
    sub = rw.choice([1, 1, 2])
    over = {"pixelization": {"uniform": sub}}
    use_normalized_psf = not signed
    ds_spec = {"kind": "imaging", "data": ref(d0), "noise": ref(nz), "psf": ref(psf), "over": over, "use_normalized_psf": use_normalized_psf}
    if rw.random() < 0.25:
        # the dataset built DIRECTLY from masked arrays (no apply_mask in between, so the PSF is normalised - or not - exactly once)
        dm_vals, nm_vals = hx(rv, n0, data_style), hx(rv, n0, "noise")
        if not signed and rw.random() < 0.5:
            use_normalized_psf = False  # a positive kernel used as given (its sum is not one)
        direct = {"kind": "imaging", "psf": ref(psf), "over": over, "use_normalized_psf": use_normalized_psf}
        D = R.add("ds", dict(direct, data=ref(R.add("a", {"kind": "array2d", "mask": ref(m0), "input": "slim", "values": dm_vals})),
                             noise=ref(R.add("a", {"kind": "array2d", "mask": ref(m0), "input": "slim", "values": nm_vals}))))
        D2 = R.add("ds", dict(direct, data=ref(R.add("a", {"kind": "array2d", "mask": ref(m0), "input": "slim", "values": list(dm_vals)})),
                              noise=ref(R.add("a", {"kind": "array2d", "mask": ref(m0), "input": "slim", "values": list(nm_vals)}))))
    else:
        ds0 = R.add("ds", ds_spec)
        D = R.add("ds", {"kind": "derive", "src": ref(ds0), "q": {"t": "call", "name": "apply_mask", "kw": {"mask": ref(m0)}}})
        # an identical second dataset ("computed from an identical dataset")
        ds0b = R.add("ds", dict(ds_spec))
        D2 = R.add("ds", {"kind": "derive", "src": ref(ds0b), "q": {"t": "call", "name": "apply_mask", "kw": {"mask": ref(m0)}}})

    adapt = None
    if rw.random() < 0.4:
        adapt = R.add("a", {"kind": "array2d", "mask": ref(m0), "input": "slim", "values": hx(rv, n0, rw.choice(["positive", "data", "data0"]))})
    obj_specs = []
    n_obj = rw.randrange(1, 4)
    for _ in range(n_obj):
        if rw.random() < 0.7:
            s = gen_mapper_spec(rw, rv, m0, (h, w), ps, adapt, knobs.get("profile_on", False))
            s["sub_size"] = sub
            s["border"] = rw.random() < 0.25
            if s["reg"] is None and rw.random() < 0.7:
                s["reg"] = gen_reg(rw, s["mesh"]["kind"], adapt is not None, allow_none=False)
            obj_specs.append(("mp", s))
        else:
            cols = rw.randrange(1, 3)
            obj_specs.append(("fl", {"kind": "func_list", "mask": ref(m0), "columns": cols, "matrix": hx(rv, n0 * cols, "positive"), "reg": (["Constant", {"coefficient": rw.choice([0.5, 2.0])}] if rw.random() < 0.3 else None), "override": hx(rv, n0 * cols, "positive") if rw.random() < 0.35 else None}))
    if not any(p == "mp" for p, _ in obj_specs) and rw.random() < 0.7:
        s = gen_mapper_spec(rw, rv, m0, (h, w), ps, adapt, False)
        s["sub_size"] = sub
        s["border"] = False
        obj_specs[0] = ("mp", s)
    if knobs.get("harvest") and rw.random() < 0.3:
        # "every mix of linear objects": a mapper with two function lists of DIFFERENT widths (what the linear-function dictionaries a
        # harvest fills are indexed by)
        def _fl(cols):
            return ("fl", {"kind": "func_list", "mask": ref(m0), "columns": cols, "matrix": hx(rv, n0 * cols, "positive"), "reg": None, "override": None})

        mappers = [x for x in obj_specs if x[0] == "mp"][:1]
        if not mappers:
            s = gen_mapper_spec(rw, rv, m0, (h, w), ps, adapt, False)
            s["sub_size"] = sub
            s["border"] = False
            mappers = [("mp", s)]
        widths = rw.choice([(1, 2), (2, 1), (3, 2), (2, 3), (1, 3)])
        obj_specs = mappers + [_fl(widths[0]), _fl(widths[1])]
    rw.shuffle(obj_specs)
    L = [R.add(p, s) for p, s in obj_specs]
    L2 = [R.add(p, dict(s)) for p, s in obj_specs]  # identical copies
    # same mappers, DIFFERENT function-list values: two fits that differ only there make Preloads.set_curvature_matrix take its
    # second branch and fill the internal mapper slots (mapper_operated_mapping_matrix_dict, data_vector_mapper, curvature_matrix_mapper_diag)
    L3 = None
    if any(p == "fl" for p, _ in obj_specs) and any(p == "mp" for p, _ in obj_specs):
        L3 = []
        for p, s_ in obj_specs:
            s3 = dict(s_)
            if p == "fl":
                s3["matrix"] = hx(rv, len(s_["matrix"]), "positive")
                if s_.get("override"):
                    s3["override"] = hx(rv, len(s_["matrix"]), "positive")
            L3.append(R.add(p, s3))

    solver = {}
    if rw.random() < 0.5:
        solver["use_positive_only_solver"] = rw.random() < 0.5
    if rw.random() < 0.3:
        solver["force_edge_pixels_to_zeros"] = False
    if rw.random() < 0.15:
        solver["positive_only_uses_p_initial"] = rw.random() < 0.5
    if rw.random() < 0.2:
        # source pixels that given image pixels map to are forced to zero (positive-only solver with edge pixels zeroed)
        solver["force_edge_image_pixels_to_zeros"] = True
        solver["image_pixels_source_zero"] = sorted(rw.sample(range(n0), min(n0, rw.randrange(1, 4))))
        if rw.random() < 0.8:
            solver["use_positive_only_solver"] = True
            solver.pop("force_edge_pixels_to_zeros", None)
    st_w = R.add("st", {"kind": "settings", "kw": dict(solver, use_w_tilde=True)})
    st_m = R.add("st", {"kind": "settings", "kw": dict(solver, use_w_tilde=False)})

    has_mapper = any(p == "mp" for p, _ in obj_specs)
    src_formalism = rw.choice(["w", "m"]) if has_mapper else "m"
    src = R.add("inv", {"kind": "inversion", "dataset": ref(D2), "objs": [ref(o) for o in L2], "settings": ref(st_w if src_formalism == "w" else st_m)})
    slots = [s for s in PUBLIC_SLOTS if rw.random() < 0.5]
    if "log_det_regularization_matrix_term" in slots and not any(s.get("reg") for _, s in obj_specs):
        pass
    kw = {}
    for s in slots:
        if s == "w_tilde":
            kw[s] = {"$attr": [D2 if rw.random() < 0.5 else D, "w_tilde"]}
        else:
            kw[s] = {"$attr": [src, s]}
    pl_use = rw.choice([None, None, True, False])
    if pl_use is not None:
        kw["use_w_tilde"] = pl_use
    P = R.add("pl", {"kind": "preloads", "kw": kw})
    # the same dataset presented through the DatasetInterface the factory also accepts (used by some clients)
    DI = None
    if rw.random() < 0.3:
        parts = {}
        for name in ("data", "noise_map", "grids", "convolver", "w_tilde"):
            parts[name] = R.add("dp", {"kind": "derive", "src": ref(D), "q": {"t": "prop", "name": name}})
        DI = R.add("di", {"kind": "dataset_interface", "data": ref(parts["data"]), "noise": ref(parts["noise_map"]), "grids": ref(parts["grids"]),
                          "convolver": ref(parts["convolver"]), "w_tilde": ref(parts["w_tilde"])})
    # the dataset with a DIFFERENT image (foreground light subtracted, as galaxy-modelling code does before every inversion) but the
    # very same noise-map, grids, convolver and w-tilde objects: tables tied to noise / PSF / mask are shared, the image is not
    DX = None
    if not knobs.get("harvest") and rw.random() < 0.35:
        xdata = R.add("a", {"kind": "array2d", "mask": ref(m0), "input": "slim", "values": hx(rv, n0, data_style)})
        xparts = {}
        for name in ("noise_map", "grids", "convolver", "w_tilde"):
            xparts[name] = R.add("dp", {"kind": "derive", "src": ref(D), "q": {"t": "prop", "name": name}})
        DX = R.add("di", {"kind": "dataset_interface", "data": ref(xdata), "noise": ref(xparts["noise_map"]), "grids": ref(xparts["grids"]),
                          "convolver": ref(xparts["convolver"]), "w_tilde": ref(xparts["w_tilde"])})
    meta = {"D": D, "D2": D2, "DI": DI, "DX": DX, "L": L, "L2": L2, "L3": L3, "st_w": st_w, "st_m": st_m, "src": src, "P": P, "slots": slots, "preloads_use_w_tilde": pl_use,
            "has_mapper": has_mapper, "kernel": [ky, kx], "signed_psf": signed, "n_obj": len(obj_specs), "sub": sub, "psf_normalised": bool(use_normalized_psf)}
    return R.nodes, meta
