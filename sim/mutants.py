#!/venv/bin/python
"""
Sensitivity self-test (DESIGN 3.10): every mutant in /verif/mutants/<id>/*.json and every seeded change in
/verif/seeded/<name>/patch.diff is applied, one at a time, to a scratch rsync copy of /repo (outside /repo and
/verif, removed immediately afterwards); the property's check must then exit 1 with a VIOLATION line whose replay
reproduces.  The unchanged copy must exit 0.

  ./check selftest-mutants [C11|C15|C16] [--only NAME] [--tier quick] [--runs N] [--with-tests]

A mutant spec is JSON:  {"property": "C11", "description": ..., "expect": "caught"|"survives",
                         "edits": [{"file": path, "old": text, "new": text}, ...]  |  "revert_commit": "<hash>"}
(search/replace rather than unified diffs because every source file uses CRLF line endings).
Results are written to /verif/mutants/results.json.
"""
import argparse
import glob
import json
import os
import shutil
import subprocess
import sys
import tempfile
import time

VERIF = os.path.dirname(os.path.dirname(os.path.abspath(__file__)))
REPO = os.environ.get("VERIF_REPO", "/repo")


def scratch_base():
    base = os.environ.get("VERIF_SCRATCH")
    if not base:
        base = "/dev/shm" if os.path.isdir("/dev/shm") and os.access("/dev/shm", os.W_OK) else tempfile.gettempdir()
    return base


def make_copy():
    d = tempfile.mkdtemp(prefix="paa-mutant-", dir=scratch_base())
    subprocess.run(["rsync", "-a", "--exclude", ".git", "--exclude", "__pycache__", "--exclude", "*.pyc", REPO + "/", d + "/"], check=True)
    return d


def apply_edits(copy, edits):
    for e in edits:
        path = os.path.join(copy, e["file"])
        data = open(path, "rb").read()
        crlf = b"\r\n" in data

        def conv(t):
            b = t.encode().replace(b"\r\n", b"\n")
            return b.replace(b"\n", b"\r\n") if crlf else b

        old, new = conv(e["old"]), conv(e["new"])
        n = data.count(old)
        if n != 1:
            raise RuntimeError(f"{e['file']}: expected exactly one occurrence of the text to replace, found {n}")
        open(path, "wb").write(data.replace(old, new))


def apply_patch(copy, patch_text, reverse=False):
    cmd = ["git", "apply", "--whitespace=nowarn", "-p1"] + (["-R"] if reverse else []) + ["-"]
    subprocess.run(["git", "init", "-q"], cwd=copy, check=False, capture_output=True)
    p = subprocess.run(cmd, cwd=copy, input=patch_text, capture_output=True)
    if p.returncode != 0:
        raise RuntimeError("git apply failed: " + p.stderr.decode()[-400:])


def run_check(prop, copy, tier, runs, seed):
    env = dict(os.environ)
    env["VERIF_REPO"] = copy
    env["VERIF_SEED"] = str(seed)
    cmd = [os.path.join(VERIF, "check"), prop, "--tier", tier]
    if runs:
        cmd += ["--runs", str(runs)]
    t0 = time.time()
    p = subprocess.run(cmd, cwd=VERIF, env=env, capture_output=True, text=True)
    lines = [l for l in p.stdout.splitlines() if l.startswith(("VIOLATION", "violation:", "KNOWN-FINDING"))]
    import re

    m = re.search(r"runs=(\d+).*violating_runs=(\d+)", p.stdout)
    global LAST_RATE
    LAST_RATE = (int(m.group(2)), int(m.group(1))) if m else None
    return p.returncode, lines, time.time() - t0, p.stdout[-600:] + p.stderr[-600:]


LAST_RATE = None


def run_tests(copy):
    p = subprocess.run([os.path.join(VERIF, "tools", "baseline_check.py"), copy], capture_output=True, text=True)
    return p.returncode == 0, (p.stdout.strip().splitlines() or [""])[0]


def collect(props, only):
    items = []
    for prop in props:
        for path in sorted(glob.glob(os.path.join(VERIF, "mutants", prop, "*.json"))):
            spec = json.load(open(path))
            spec["name"] = prop + "/" + os.path.basename(path)[:-5]
            spec["property"] = prop
            items.append(spec)
    for d in sorted(glob.glob(os.path.join(VERIF, "seeded", "*"))):
        meta_p = os.path.join(d, "meta.json")
        patch_p = os.path.join(d, "patch.diff")
        if not (os.path.exists(meta_p) and os.path.exists(patch_p)):
            continue
        meta = json.load(open(meta_p))
        targets = [meta.get("property")]
        if meta.get("expect") == "survives" and meta.get("kind", "").startswith("behaviour-preserving"):
            targets = ["C11", "C15", "C16"]  # a benign refactor must keep EVERY check silent
        for prop in targets:
            if prop not in props:
                continue
            suffix = "" if len(targets) == 1 else "@" + prop
            items.append({"name": "seeded/" + os.path.basename(d) + suffix, "property": prop, "description": meta.get("what", ""), "expect": meta.get("expect", "caught"),
                          "patch_file": patch_p})
    if only:
        items = [i for i in items if only in i["name"]]
    return items


def main():
    ap = argparse.ArgumentParser()
    ap.add_argument("props", nargs="*", default=[])
    ap.add_argument("--only", default=None)
    ap.add_argument("--tier", default="quick")
    ap.add_argument("--runs", type=int, default=0)
    ap.add_argument("--seed", type=int, default=int(os.environ.get("VERIF_SEED", "0")))
    ap.add_argument("--with-tests", action="store_true", help="also run the repository's own suite on every mutant (must still pass)")
    ap.add_argument("--skip-clean", action="store_true")
    args = ap.parse_args()
    props = args.props or ["C11", "C15", "C16"]
    results = []
    failures = 0
    if not args.skip_clean and not args.only:
        copy = make_copy()
        try:
            for prop in props:
                rc, lines, dt, tail = run_check(prop, copy, args.tier, args.runs, args.seed)
                ok = rc == 0
                print(f"[{'ok' if ok else 'FAIL'}] unchanged copy / {prop}: exit {rc} in {dt:.0f}s")
                results.append({"name": "unchanged/" + prop, "property": prop, "exit": rc, "ok": ok})
                if not ok:
                    failures += 1
                    print(tail)
        finally:
            shutil.rmtree(copy, ignore_errors=True)
    for item in collect(props, args.only):
        copy = make_copy()
        try:
            try:
                if "edits" in item:
                    apply_edits(copy, item["edits"])
                elif "revert_commit" in item:
                    patch = subprocess.run(["git", "-C", REPO, "show", "--format=", item["revert_commit"]], capture_output=True).stdout
                    apply_patch(copy, patch, reverse=True)
                elif "patch_file" in item:
                    apply_patch(copy, open(item["patch_file"], "rb").read())
            except Exception as e:  # noqa: BLE001
                print(f"[SKIP] {item['name']}: cannot apply ({e})")
                results.append({"name": item["name"], "property": item["property"], "applied": False, "error": str(e)})
                failures += 1
                continue
            rc, lines, dt, tail = run_check(item["property"], copy, args.tier, args.runs, args.seed)
            caught = rc == 1 and any(l.startswith("VIOLATION") for l in lines)
            tests = None
            if args.with_tests:
                tests = run_tests(copy)
            expect = item.get("expect", "caught")
            ok = (caught and expect == "caught") or (not caught and rc == 0 and expect == "survives")
            status = "caught" if caught else ("survived" if rc == 0 else f"exit {rc}")
            rate = f" [{LAST_RATE[0]} of {LAST_RATE[1]} runs violate]" if LAST_RATE else ""
            print(f"[{'ok' if ok else 'MISS'}] {item['name']}: {status} in {dt:.0f}s (expected {expect}){rate}" + (f"; repo tests: {tests[1]}" if tests else ""))
            for l in lines[:4]:
                print("      " + l[:200])
            if rc not in (0, 1):
                print(tail)
            results.append({"name": item["name"], "property": item["property"], "description": item.get("description"), "expect": expect, "exit": rc, "caught": caught,
                            "ok": ok, "wall_s": round(dt, 1), "violating_runs": LAST_RATE[0] if LAST_RATE else None, "runs": LAST_RATE[1] if LAST_RATE else None, "violation_lines": [l for l in lines if l.startswith("violation:")][:3],
                            "repo_tests_still_pass": tests[0] if tests else None})
            if not ok:
                failures += 1
        finally:
            shutil.rmtree(copy, ignore_errors=True)
    out = os.path.join(VERIF, "mutants", "results.json")
    prev = {}
    if os.path.exists(out):
        try:
            prev = {r["name"]: r for r in json.load(open(out)).get("results", [])}
        except Exception:  # noqa: BLE001
            prev = {}
    for r in results:
        prev[r["name"]] = r
    os.makedirs(os.path.dirname(out), exist_ok=True)
    json.dump({"tier": args.tier, "results": [prev[k] for k in sorted(prev)]}, open(out, "w"), indent=1)
    print(f"{len(results)} items, {failures} not as expected")
    sys.exit(1 if failures else 0)


if __name__ == "__main__":
    main()
